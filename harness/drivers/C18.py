"""C18 - grid-game transitions are normalised and respect the physical constraints; factor-table
product / mixture laws.

Two specifications, three kinds of TLC runs:

  spec/C18_GridGame.tla (MODE mc)      explores the implementation-shaped reference machine of
        TabularGridGame.next_state_dist over every reachable state of every layout of the batch and all
        25 joint actions; checks the design invariants; emits the exact expected distribution and rewards
        per (layout, state, joint action)                               -> pipeline A, mismatch = DRIFT
  spec/C18_GridGameTrace.tla           validates what the real game did (closure of the initial state
        under the real next_state_dist, every positive-probability outcome of every joint action) against
        the allowed-move relation; verdict per (layout, state) trace    -> pipeline B, clause = VIOLATION
  spec/C18_Factor.tla (MODE exh/batch) stack machine over DiscreteFactorTable operations with the join /
        mixture laws as invariants; emits the expected table after every operation; the harness replays
        the operations on the real class                                -> pipeline A

Python only generates layouts / tables, runs the real code, projects, and compares with what TLC printed.
"""
import math
import random
import signal
import warnings
from fractions import Fraction as F

from concurrent.futures import ThreadPoolExecutor

from ..core import digest
from ..tlc import run_tlc, TLCFailure

# TLC runs are subprocesses: independent ones are started side by side (at most three at a time, heap 3g each)
# while the main thread drives the real code; results are accounted for in the main thread.
_POOL = ThreadPoolExecutor(max_workers=3)
# the recursive table loops of the specs nest deeply (one level per row pair): give TLC's worker threads a big stack
JVM = {"JAVA_TOOL_OPTIONS": "-Xss64m"}

# ================================================================================================
# part 1: grid game
# ================================================================================================
ACTS = [(0, 0), (1, 0), (-1, 0), (0, 1), (0, -1)]          # joint_actions() order = Dirs in the spec
DIRS = {"left": (-1, 0), "right": (1, 0), "above": (0, 1), "below": (0, -1)}
T = [[-1, -1], [-1, -1]]
Q = 1000000000
QCAP = 1050000000
EPSD = 100000

GAME_CFG = """INIT Init
NEXT Next
CHECK_DEADLOCK FALSE
INVARIANT Emit
INVARIANT NoSharedCell
INVARIANT NoSwap
INVARIANT InGrid
INVARIANT NotInObstacle
INVARIANT NotThroughWall
INVARIANT OneCellCommanded
INVARIANT GoalLeadsToTerminal
INVARIANT TerminalAbsorbing
INVARIANT WithinMove
INVARIANT Normalisable
INVARIANT StateValid
INVARIANT AgentTablesNormalised
INVARIANT FenceSuccessExact
INVARIANT LayoutsWellFormed
"""
GAME_INVS = ["NoSharedCell", "NoSwap", "InGrid", "NotInObstacle", "NotThroughWall", "OneCellCommanded",
             "GoalLeadsToTerminal", "TerminalAbsorbing", "WithinMove", "Normalisable", "StateValid",
             "AgentTablesNormalised", "FenceSuccessExact", "LayoutsWellFormed"]

TRACE_CFG = """INIT TraceInit
NEXT TraceNext
CHECK_DEADLOCK FALSE
INVARIANT Verdict
INVARIANT Normalised
INVARIANT TrNoSharedCell
INVARIANT TrNoSwap
INVARIANT TrInGrid
INVARIANT TrNotInObstacle
INVARIANT TrNotThroughWall
INVARIANT TrAtMostOneCell
INVARIANT TrGoalLeadsToTerminal
INVARIANT TrTerminalAbsorbing
INVARIANT TrMarginal
INVARIANT TrNormalize
INVARIANT TrReachableClosed
INVARIANT TrClosed
"""
# invariant of the trace spec -> clause names it stands for
TRACE_INV_CLAUSES = {
    "Normalised": {"sum"}, "TrNoSharedCell": {"shared-cell"}, "TrNoSwap": {"swap"}, "TrInGrid": {"off-grid"},
    "TrNotInObstacle": {"obstacle"}, "TrNotThroughWall": {"wall"},
    "TrAtMostOneCell": {"more-than-one-cell", "terminal-from-non-goal-state"},
    "TrGoalLeadsToTerminal": {"own-goal-not-terminal"},
    "TrTerminalAbsorbing": {"terminal-not-absorbing", "terminal-pays"},
    "TrMarginal": {"marginal", "marginal-sum"},
    "TrNormalize": {"normalize"},
    "TrReachableClosed": {"reachable-states-not-closed"},
    "TrClosed": {"closure", "malformed"},
}

SIZES_QUICK = ([(2, 1), (3, 1), (3, 1), (1, 3)] + [(2, 2)] * 6 + [(3, 2)] * 8 + [(2, 3)] * 6 + [(3, 3)] * 12
               + [(4, 2), (4, 2), (2, 4)] + [(4, 3)] * 4 + [(3, 4)] * 2 + [(4, 4)] * 2)
FINE_LIMIT = 40
FENCE_PROBS = [(1, 2), (0, 1), (1, 4), (3, 4), (1, 1), (1, 3), (7, 10), (1, 2)]


def rand_layout(rng, W, H):
    """Abstract layout (cells are [x, y], y upwards) - independent of msdm's parser."""
    cells = [(x, y) for x in range(W) for y in range(H)]
    dens = rng.choice([0.0, 0.12, 0.2, 0.3])
    while True:
        obst = [c for c in cells if rng.random() < dens * 0.8]
        free = [c for c in cells if c not in obst]
        if len(free) >= 2:
            break
    walls, fences = [], []
    for c in free:
        for name, (dx, dy) in DIRS.items():
            r = rng.random()
            if r < dens * 0.35:
                walls.append((c, name))
            elif r < dens * 0.8:
                fences.append((c, name))
    # goals: one symbol per cell; private G0 / G1, shared G; sometimes missing
    goals = {}
    style = rng.choice(["both", "both", "both", "shared", "shared+private", "one", "none", "two-each"])
    want = {"both": [(1,), (2,)], "shared": [(1, 2)], "shared+private": [(1, 2), (1,), (2,)], "one": [rng.choice([(1,), (2,)])],
            "none": [], "two-each": [(1,), (2,), (1,), (2,)]}[style]
    for owners in want:
        cand = [c for c in free if c not in goals]
        if cand:
            goals[rng.choice(cand)] = owners
    # agents: a free cell that is not the agent's own goal; rarely on a goal on purpose (own goal: absorbing
    # initial state; the other's goal: a plain cell for the agent but a "goal cell" for the collision rule)
    def own(i, c):
        return c in goals and i in goals[c]
    abs_start = rng.random() < 0.06
    f1 = [c for c in free if not own(1, c)] or free
    a1 = rng.choice(f1)
    if goals and (abs_start or rng.random() < 0.1):
        pick = [c for c in goals if own(1, c) == abs_start]
        if pick:
            a1 = rng.choice(pick)
    cand2 = [c for c in free if (c != a1 or c in goals) and not own(2, c)] or [c for c in free if c != a1]
    near = [c for c in cand2 if abs(c[0] - a1[0]) + abs(c[1] - a1[1]) <= 2 and c != a1]
    a2 = rng.choice(near) if near and rng.random() < 0.6 else rng.choice(cand2)
    if goals and rng.random() < 0.08:
        pick = [c for c in goals if not own(2, c) and (c != a1 or True)]
        if pick:
            a2 = rng.choice(pick)
    PN, PD = rng.choice(FENCE_PROBS)
    # a very small but positive fence success probability 10^-k: the spec gets the surrogate 1/2 (same supports,
    # same reachable set; TLC's integers cannot carry 10^-12) and the exact probabilities come from py_ref_dist
    tiny = rng.choice([9, 12, 10]) if fences and rng.random() < 0.12 else 0
    if tiny:
        PN, PD = 1, 2
    lay = {
        "W": W, "H": H,
        "obst": [list(c) for c in obst],
        "walls": [[list(c), [c[0] + DIRS[d][0], c[1] + DIRS[d][1]]] for c, d in walls],
        "fences": [[list(c), [c[0] + DIRS[d][0], c[1] + DIRS[d][1]]] for c, d in fences],
        "goals": [{"cell": list(c), "owners": list(o)} for c, o in sorted(goals.items())],
        "init": [list(a1), list(a2)],
        "PN": PN, "PD": PD,
        "hack": 1 if rng.random() < 0.7 else 0,
        "GR": rng.choice([10, 3]), "SC": rng.choice([-1, -1, -2, 0]), "CC": rng.choice([0, -3, -3]),
        "_walls": [[list(c), d] for c, d in walls], "_fences": [[list(c), d] for c, d in fences],
        "_custom": rng.random() < 0.3,
        "_tiny": tiny,
        # how the layout text separates its cells: one blank, column-aligned padding, tabs, indented block
        "_pad": rng.choice(["single", "single", "single", "aligned", "aligned", "tabs", "indent"]),
    }
    return lay


def render(lay):
    """Game string + constructor options for the abstract layout."""
    custom = lay["_custom"]
    if custom:
        ag = ("P", "Q")
        goal_sym = {(1,): "X", (2,): "Y", (1, 2): "Z"}
        obs = "O"
        wall_sym = {"left": "wl", "right": "wr", "above": "wa", "below": "wb"}
        fence_sym = {"left": "fl", "right": "fr", "above": "fa", "below": "fb"}
    else:
        ag = ("A0", "A1")
        goal_sym = {(1,): "G0", (2,): "G1", (1, 2): "G"}
        obs = "#"
        wall_sym = {"left": "[", "right": "]", "above": "^", "below": "_"}
        fence_sym = {"left": "{", "right": "}", "above": "~", "below": "u"}
    W, H = lay["W"], lay["H"]
    toks = {(x, y): [] for x in range(W) for y in range(H)}
    for c in lay["obst"]:
        toks[tuple(c)].append(obs)
    for c, d in lay["_walls"]:
        toks[tuple(c)].append(wall_sym[d])
    for c, d in lay["_fences"]:
        toks[tuple(c)].append(fence_sym[d])
    for g in lay["goals"]:
        toks[tuple(g["cell"])].append(goal_sym[tuple(g["owners"])])
    for i, c in enumerate(lay["init"]):
        toks[tuple(c)].append(ag[i])
    rows = []
    pad = lay.get("_pad", "single")
    cell = {c: (".".join(t) if t else ".") for c, t in toks.items()}
    width = {x: max(len(cell[(x, y)]) for y in range(H)) for x in range(W)}
    for y in range(H - 1, -1, -1):
        if pad == "single":
            rows.append(" ".join(cell[(x, y)] for x in range(W)))
        elif pad == "tabs":
            rows.append("\t".join(cell[(x, y)] for x in range(W)))
        else:       # column aligned: every cell padded to its column's width, two blanks between columns
            rows.append(("        " if pad == "indent" else "") + "  ".join(cell[(x, y)].ljust(width[x]) for x in range(W)).rstrip()
                        + ("  " if pad == "indent" and y % 2 else ""))
    s = "\n".join(rows)
    if pad == "indent":
        s = "\n" + s + "\n    "
    fence_p = 10.0 ** -lay["_tiny"] if lay.get("_tiny") else lay["PN"] / lay["PD"]
    opts = dict(fence_success_prob=fence_p, collision_prob=None if lay["hack"] else 0.5,
                goal_reward=lay["GR"], step_cost=lay["SC"], collision_cost=lay["CC"])
    if custom:
        as_dict = (lay["W"] + lay["H"]) % 2 == 0
        gs = {v: tuple(ag[i - 1] for i in k) for k, v in goal_sym.items()}
        ws = {v: k for k, v in wall_sym.items()}
        fs = {v: k for k, v in fence_sym.items()}
        opts.update(agent_symbols=ag, obstacle_symbols=(obs,),
                    goal_symbols=gs if as_dict else tuple(gs.items()),
                    wall_symbols=ws if as_dict else tuple(ws.items()),
                    fence_symbols=fs if as_dict else tuple(fs.items()))
    return s, opts, ag


def spec_layout(lay, states=(), capped=0):
    d = {k: v for k, v in lay.items() if not k.startswith("_")}
    d["states"] = [s for s in states]
    d["capped"] = capped
    d["fine"] = 1 if len(d["states"]) <= FINE_LIMIT else 0      # step-by-step machine vs composed steps
    return d


class _Timeout(Exception):
    pass


_LIB_TIMEOUTS = [0]


class time_limit:
    """Wall-clock limit for calls into the real code (a changed msdm may loop forever)."""

    def __init__(self, seconds):
        self.seconds = seconds

    def _raise(self, *a):
        raise _Timeout(f"no result after {self.seconds} s")

    def __enter__(self):
        self.old = signal.signal(signal.SIGALRM, self._raise)
        signal.alarm(self.seconds)

    def __exit__(self, *a):
        signal.alarm(0)
        signal.signal(signal.SIGALRM, self.old)
        return False


class RealGame:
    """The real TabularGridGame for a layout and the projection of its states."""

    def __init__(self, lay):
        from msdm.domains.gridgame.tabulargridgame import TabularGridGame
        self.lay = lay
        s, opts, _ = render(lay)
        self.string = s
        self.gg = TabularGridGame(s, **opts)
        self.names = list(self.gg.agent_names)

    def project(self, s):
        if self.gg.is_terminal(s):
            return T
        out = []
        for an in self.names:
            try:
                out.append([int(s[an]["x"]), int(s[an]["y"])])
            except Exception:                       # noqa: BLE001 - not a positional state
                out.append([-9, -9])
        while len(out) < 2:
            out.append([-9, -9])
        return out[:2]

    def ja(self, k):
        a1, a2 = divmod(k, 5)
        return {self.names[0]: {"x": ACTS[a1][0], "y": ACTS[a1][1]}, self.names[1]: {"x": ACTS[a2][0], "y": ACTS[a2][1]}}

    def actions_ok(self, s):
        """joint_actions(s) offers each agent exactly the five moves, in the order the spec's Dirs assume."""
        try:
            ja = self.gg.joint_actions(s)
            return set(ja) == set(self.names) and all(
                [(a["x"], a["y"]) for a in ja[an]] == ACTS for an in self.names)
        except Exception:                           # noqa: BLE001
            return False

    def expand(self, s):
        """25 rows of (projected outcome, probability, rewards, raw outcome), and per row the two per-agent
        marginals of the returned table as marginalize() gives them ([] when it raises)."""
        rows, margs = [], []
        sp = self.project(s)
        for k in range(25):
            ja = self.ja(k)
            d = self.gg.next_state_dist(s, ja)
            merged = {}
            for ns, p in zip(d.support, d.probs):
                p = float(p)
                if not p > 0.0:
                    continue
                n = self.project(ns)
                key = str(n)
                if key in merged:
                    merged[key]["p"] += p
                else:
                    try:
                        r = self.gg.joint_rewards(s, ja, ns)
                        rr = [float(r[an]) for an in self.names]
                    except Exception:                   # noqa: BLE001 - no reward at all: logged as not-a-number
                        rr = [float("nan"), float("nan")]
                    merged[key] = {"n": n, "p": p, "r": rr, "raw": ns, "z": 0.0}
            # normalize() / marginalize() of the returned table: wherever a constraint is active (there the raw row
            # weights do not sum to one) and on every third other row
            extras = merged and (k % 3 == 0 or nontrivial_pair(self.lay, sp, divmod(k, 5)))
            if not extras:
                for o in merged.values():
                    o["z"] = o["p"]
                rows.append(list(merged.values()))
                margs.append([])
                continue
            if merged:
                # normalize() of the returned table: its row weights exp(logit) must be the probabilities
                try:
                    nz = d.normalize()
                    for ns, lg in zip(nz.support, nz.logits):
                        key = str(self.project(ns))
                        if key in merged:
                            merged[key]["z"] += math.exp(min(float(lg), 700.0)) if float(lg) == float(lg) else float("nan")
                except Exception:                       # noqa: BLE001 - no normalised table at all
                    for o in merged.values():
                        o["z"] = float("nan")
            rows.append(list(merged.values()))
            mm = []
            for an in self.names:
                try:
                    m = d.marginalize(lambda e, an=an: ({"x": int(e[an]["x"]), "y": int(e[an]["y"])}
                                                        if not self.gg.is_terminal(e) else {"x": -1, "y": -1}))
                    agg = {}
                    for c, p in zip(m.support, m.probs):
                        if float(p) > 0.0 or float(p) != float(p):
                            key = (c["x"], c["y"])
                            agg[key] = agg.get(key, 0.0) + float(p)
                    mm.append([{"c": [x, y], "p": p} for (x, y), p in agg.items()])
                except Exception:                       # noqa: BLE001 - no marginal at all
                    mm.append([])
            margs.append(mm)
        return rows, margs


def quant(p):
    if not math.isfinite(p):
        return QCAP
    return max(1, min(QCAP, int(round(p * Q))))


def qrew(r):
    if not math.isfinite(r):
        return 999999999
    return max(-999999999, min(999999999, int(round(r * 1000))))


def record_layout(ctx, lay):
    """Closure of the initial state under the real next_state_dist.  Returns dict with states (projected,
    BFS order), events {state key: rows}, or {'error': ...}."""
    rg = RealGame(lay)
    gg = rg.gg
    init_support = list(gg.initial_state_dist().support)
    s0 = init_support[0]
    cap = (lay["W"] * lay["H"]) ** 2 + 2
    order, raw, events, margs = [], {}, {}, {}
    frontier = [s0]
    raw[str(rg.project(s0))] = s0
    order.append(rg.project(s0))
    capped = 0
    error = None
    i = 0
    while i < len(order):
        n = order[i]
        i += 1
        s = raw[str(n)]
        try:
            with time_limit(60):
                rows, mg = rg.expand(s)
        except Exception as e:                          # noqa: BLE001 - judged by the caller
            error = {"state": n, "exc": f"{type(e).__name__}: {e}"[:200]}
            break
        ctx.evaluations += 25
        events[str(n)] = rows
        margs[str(n)] = mg
        if not rg.actions_ok(s):
            ctx.drift("joint_actions", {"layout": digest(lay), "state": n})
        for row in rows:
            for o in row:
                key = str(o["n"])
                if key not in raw:
                    if len(order) >= cap:
                        capped = 1
                        continue
                    raw[key] = o["raw"]
                    order.append(o["n"])
    # the library's own reachability (anchor: reachability over dictionary-valued states)
    lib, lib_proj, lib_why = None, None, {}
    try:
        if _LIB_TIMEOUTS[0] >= 2:
            raise _Timeout("reachable_states() not called any more after two time-outs")
        with time_limit(10 + len(order) // 10):
            lib_set = gg.reachable_states()
            lib_states = list(lib_set)
        lib_proj = [rg.project(s) for s in lib_states]
        # membership by value: a dictionary equal to a listed state, with its keys inserted in another order
        # (a hand-written / model-generated state), must be `in` the set
        for n in order:
            st = raw[str(n)]
            perm = reordered_equal(st)
            if str(n) in {str(x) for x in lib_proj} and not (perm == st and perm in lib_set and st in lib_set):
                lib_why.setdefault(str(n), "membership-of-equal-dict-with-other-key-order")
        lib = sorted({str(x) for x in lib_proj})
        lib_n = len(lib_states)
        ctx.evaluations += 1
    except Exception as e:                              # noqa: BLE001
        if isinstance(e, _Timeout):
            _LIB_TIMEOUTS[0] += 1
        lib, lib_n = f"{type(e).__name__}: {e}"[:200], -1
    hist = {"requery": {}, "requery_margs": {}, "lib2": None, "error": None}
    if error is None and not capped:
        hist = history_probe(ctx, lay, order, raw)
    if not isinstance(lib, str) and lib_proj is not None:
        have = {str(x) for x in lib_proj}
        for n in order:
            if str(n) not in have:
                lib_why[str(n)] = "first-call"
        if hist["lib2"] is not None:
            have2 = {str(x) for x in hist["lib2"]}
            for n in order:
                if str(n) not in have2:
                    lib_why.setdefault(str(n), "after-bounded-call-on-same-game")
        # what TLC gets: the states the library lists in every one of these observations
        lib_proj = [x for x in lib_proj if str(x) not in lib_why]
    return {"lay": lay, "string": rg.string, "states": order, "events": events, "margs": margs, "capped": capped, "error": error,
            "lib_states": lib, "lib_proj": lib_proj if not isinstance(lib, str) else None, "lib_n": lib_n, "lib_why": lib_why,
            "init_n": len(init_support), "hist": hist}


def reordered_equal(st):
    """An equal dictionary whose keys (outer and inner) were inserted in the reverse order."""
    out = {}
    for k in reversed(list(st)):
        v = st[k]
        out[k] = {kk: v[kk] for kk in reversed(list(v))} if isinstance(v, dict) else v
    return out


HIST_LIMIT = 60


def history_probe(ctx, lay, order, raw):
    """Call histories on ONE further game object of the layout (the statement's clauses hold for every reachable state
    and joint action whatever the game object was asked before):
      (a) a bounded exploration reachable_states(MAX_STATES=1) first, the unbounded one at the end;
      (b) a simulation loop that keeps one state dictionary and updates it in place after every step;
      (c) then fresh copies of recorded states are expanded again under all 25 joint actions ("requery")."""
    import copy
    out = {"requery": {}, "requery_margs": {}, "lib2": None, "error": None}
    rg2 = RealGame(lay)
    gg2 = rg2.gg
    rng = random.Random(int(digest(lay), 16))
    small = len(order) <= HIST_LIMIT and _LIB_TIMEOUTS[0] < 2
    try:
        if small:
            with time_limit(10):
                gg2.reachable_states(MAX_STATES=1)
        cur = copy.deepcopy(gg2.initial_state_dist().support[0])
        visited = [rg2.project(cur)]
        with time_limit(60):
            for _ in range(24):
                if gg2.is_terminal(cur):
                    break
                d = gg2.next_state_dist(cur, rg2.ja(rng.randrange(25)))
                ctx.evaluations += 1
                cands = sorted(((float(p), i) for i, p in enumerate(d.probs) if float(p) > 0 and not gg2.is_terminal(d.support[i])),
                               reverse=True)
                if not cands:
                    continue
                ns = d.support[cands[0][1] if rng.random() < 0.7 else rng.choice(cands)[1]]
                for an in rg2.names:                 # the caller's own dictionary, updated in place
                    cur[an]["x"], cur[an]["y"] = ns[an]["x"], ns[an]["y"]
                visited.append(rg2.project(cur))
        targets = []
        for n in visited + order[:2]:
            if str(n) in raw and n not in targets and n != T:
                targets.append(n)
        for n in targets[:5]:
            with time_limit(60):
                rows, mg = rg2.expand(copy.deepcopy(raw[str(n)]))
            ctx.evaluations += 25
            out["requery"][str(n)] = rows
            out["requery_margs"][str(n)] = mg
        if small:
            with time_limit(10 + len(order) // 10):
                out["lib2"] = [rg2.project(x) for x in gg2.reachable_states()]
            ctx.evaluations += 1
    except _Timeout:
        _LIB_TIMEOUTS[0] += 1
    except Exception as e:                              # noqa: BLE001 - judged by the caller
        out["error"] = {"state": order[0], "exc": f"{type(e).__name__}: {e}"[:200]}
    return out


# ---------------------------------------------------------------------------------- independent oracles
def py_clauses(lay, s, ja, n):
    """Independent statement of the allowed-move relation (cross-check of the TLA+ one)."""
    W, H = lay["W"], lay["H"]
    goal_cells = {tuple(g["cell"]) for g in lay["goals"]}
    own = lambda i, c: any(tuple(g["cell"]) == tuple(c) and (i + 1) in g["owners"] for g in lay["goals"])
    if s == T:
        return {"terminal-not-absorbing"} if n != T else set()
    if own(0, s[0]) or own(1, s[1]):
        return {"own-goal-not-terminal"} if n != T else set()
    if n == T:
        return {"terminal-from-non-goal-state"}
    out = set()
    obst = {tuple(c) for c in lay["obst"]}
    walls = {(tuple(a), tuple(b)) for a, b in lay["walls"]}
    for i in range(2):
        x, y = n[i]
        if not (0 <= x < W and 0 <= y < H):
            out.add("off-grid")
        if (x, y) in obst:
            out.add("obstacle")
        if (tuple(s[i]), (x, y)) in walls:
            out.add("wall")
        dx, dy = ACTS[ja[i]]
        if (x, y) != tuple(s[i]) and (x, y) != (s[i][0] + dx, s[i][1] + dy):
            out.add("more-than-one-cell")
    if tuple(n[0]) == tuple(n[1]) and tuple(n[0]) not in goal_cells:
        out.add("shared-cell")
    if tuple(s[0]) != tuple(s[1]) and tuple(n[0]) == tuple(s[1]) and tuple(n[1]) == tuple(s[0]):
        out.add("swap")
    return out


def py_ref_dist(lay, s, ja, p=None):
    """Independent exact (Fraction) statement of what the code computes: {outcome: probability}."""
    if s == T:
        return {str(T): F(1)}
    own = lambda i, c: any(tuple(g["cell"]) == tuple(c) and (i + 1) in g["owners"] for g in lay["goals"])
    if own(0, s[0]) or own(1, s[1]):
        return {str(T): F(1)}
    eps = F(1, EPSD)
    p = F(lay["PN"], lay["PD"]) if p is None else p
    W, H = lay["W"], lay["H"]
    obst = {tuple(c) for c in lay["obst"]}
    walls = {(tuple(a), tuple(b)) for a, b in lay["walls"]}
    fences = {(tuple(a), tuple(b)) for a, b in lay["fences"]}
    goal_cells = {tuple(g["cell"]) for g in lay["goals"]}
    per = []
    for i in range(2):
        c = tuple(s[i])
        dx, dy = ACTS[ja[i]]
        t = (max(min(c[0] + dx, W - 1), 0), max(min(c[1] + dy, H - 1), 0))
        if t == c:
            per.append({c: F(1)})
            continue
        stay, move = eps, 1 - eps
        if (c, t) in fences:
            stay, move = eps * p + (1 - p), (1 - eps) * p
        if t in obst or (c, t) in walls:
            move = F(0)
        per.append({k: v for k, v in ((c, stay), (t, move)) if v > 0})
    joint = {}
    for c1, w1 in per[0].items():
        for c2, w2 in per[1].items():
            joint[(c1, c2)] = w1 * w2
    sc = (tuple(s[0]), tuple(s[1]))
    collide = lambda n: n[0] == n[1] and n[0] not in goal_cells and n[1] not in goal_cells
    anyc = any(collide(n) for n in joint)
    res = {}
    for n, w in joint.items():
        if collide(n) or (n[0] == sc[1] and n[1] == sc[0]):
            continue
        if lay["hack"] and anyc and n != sc:
            continue
        res[n] = w
    z = sum(res.values())
    return {str([list(n[0]), list(n[1])]): w / z for n, w in res.items()}


def spec_dist(rec):
    """{outcome: (probability, rewards)} from one emitted record of C18_GridGame."""
    ws = [F(r["w"][0]) * F(r["w"][1]) for r in rec["rows"]]
    z = sum(ws)
    return {str(r["n"]): (w / z, r["rew"]) for r, w in zip(rec["rows"], ws)}


# ---------------------------------------------------------------------------------- the game pipeline
def game_pipeline(ctx, recs, *, selftest_expect=None, tag=""):
    """recs: output of record_layout for every layout.  Runs MC + trace validation, judges."""
    layouts = [spec_layout(r["lay"], r["states"], r["capped"]) for r in recs]
    traces = []
    tmeta = []
    for li, r in enumerate(recs, start=1):
        expanded = []
        for n in r["states"]:
            rows = r["events"].get(str(n))
            if rows is None:
                continue
            expanded.append(n)
            mg = r.get("margs", {}).get(str(n)) or [[] for _ in rows]
            traces.append({"lid": li, "kind": "expand", "s": n, "expanded": [], "hist": 0,
                           "marg": [[[{"c": e["c"], "q": quant(e["p"])} for e in m] for m in mm] for mm in mg],
                           "rows": [[{"n": o["n"], "q": quant(o["p"]), "r": [qrew(x) for x in o["r"]],
                                      "z": quant(o.get("z", o["p"]))} for o in row]
                                    for row in rows]})
            tmeta.append((li, n, False))
        hist = r.get("hist") or {"requery": {}, "requery_margs": {}}
        for key, rows in hist["requery"].items():
            n = next(x for x in r["states"] if str(x) == key)
            mg = hist["requery_margs"].get(key) or [[] for _ in rows]
            traces.append({"lid": li, "kind": "expand", "s": n, "expanded": [], "hist": 1,
                           "marg": [[[{"c": e["c"], "q": quant(e["p"])} for e in m] for m in mm] for mm in mg],
                           "rows": [[{"n": o["n"], "q": quant(o["p"]), "r": [qrew(x) for x in o["r"]],
                                      "z": quant(o.get("z", o["p"]))} for o in row] for row in rows]})
            tmeta.append((li, n, True))
        if r["states"][0] != r["lay"]["init"]:
            # the game starts somewhere else than the layout says: no clause of the statement by itself (the physical
            # clauses are judged against the layout wherever the agents really are)
            ctx.drift("initial-state-differs-from-layout", {"layout": digest(r["lay"]), "real": r["states"][0], "layout_init": r["lay"]["init"]})
        traces.append({"lid": li, "kind": "cover", "s": r["states"][0], "expanded": expanded, "rows": [], "marg": [],
                       "haslib": 1 if r.get("lib_proj") is not None else 0, "lib": r.get("lib_proj") or []})
        tmeta.append((li, None, False))
    batch = {"layouts": layouts, "traces": traces}

    # ---- MC: the reference machine over the same layouts;  B: trace validation of the recorded behaviour
    f_mc = _POOL.submit(run_tlc, ctx.workdir / f"game_mc{tag}", "C18_GridGame", GAME_CFG, files={"batch.json": batch},
                        env={"BATCH_FILE": "batch.json", **JVM}, coverage=(ctx.tier == "thorough"), timeout=1500, heap="3g")
    f_tr = _POOL.submit(run_tlc, ctx.workdir / f"game_trace{tag}", "C18_GridGameTrace", TRACE_CFG, files={"batch.json": batch},
                        env={"BATCH_FILE": "batch.json", **JVM}, timeout=1500, heap="3g")
    res = f_mc.result()
    ctx.add_tlc(res, "mc: reference machine of next_state_dist over all reachable states x 25 joint actions")
    bad = [v for v in res.violated if v in GAME_INVS]
    if bad:
        raise TLCFailure(f"design-level invariant violated in C18_GridGame: {sorted(set(bad))}\n"
                         + (res.traces[0][:3000] if res.traces else ""))
    expect = {}
    mc_states = {}
    for rec in res.records:
        expect[(rec["lid"], str(rec["s"]), rec["ja"][0] - 1, rec["ja"][1] - 1)] = rec
        mc_states.setdefault(rec["lid"], set()).add(str(rec["s"]))
    if selftest_expect:
        selftest_expect(expect)

    tres = f_tr.result()
    ctx.add_tlc(tres, "trace: every recorded (state, joint action, outcome) against the allowed-move relation")
    verdicts = {v["tid"]: v for v in tres.records}
    if len(verdicts) != len(traces):
        raise TLCFailure(f"trace validation returned {len(verdicts)} verdicts for {len(traces)} traces")
    # consistency of the two ways TLC reports a failing clause
    seen_clauses = {b["c"] for v in verdicts.values() for b in v["bad"]}
    for inv in set(tres.violated):
        if inv in TRACE_INV_CLAUSES and not (TRACE_INV_CLAUSES[inv] & seen_clauses):
            raise TLCFailure(f"invariant {inv} violated but no verdict names its clause")
    # (TLC reports only the first violated invariant of a state, so the converse is: some invariant failed)
    if seen_clauses and not any(inv in TRACE_INV_CLAUSES for inv in tres.violated):
        raise TLCFailure(f"verdicts name clauses {sorted(seen_clauses)} but no invariant failed")

    nviol = 0
    for ti, (tr, (li, n, after_history)) in enumerate(zip(traces, tmeta), start=1):
        r = recs[li - 1]
        lay = r["lay"]
        events_here = r["hist"]["requery"] if after_history else r["events"]
        v = verdicts[ti]
        badset = v["bad"]
        harness_fault = [b for b in badset if b["c"] in ("closure", "malformed")]
        if harness_fault:
            if ctx.selftest == "quiet":
                ctx.violation("C18:harness:closure", f"recorded closure incomplete: {harness_fault[0]}", {"kind": "selftest"})
                nviol += 1
                continue
            raise TLCFailure(f"recorded closure is not closed / malformed (harness fault): {harness_fault[:2]} layout {li}")
        if tr["kind"] == "cover":
            missing = [b["n"] for b in badset if b["c"] == "reachable-states-not-closed"]
            if missing:
                why = (r.get("lib_why") or {}).get(str(missing[0]), "first-call")
                shape = (f"fence_success_prob=1e-{lay['_tiny']}" if lay.get("_tiny") else "ordinary-layout") + ":" + why
                ctx.violation(f"C18:TabularStochasticGame.reachable_states:not-closed:{shape}",
                              f"layout {li}\n{r['string']}\nreachable_states() has {r['lib_n']} states and lacks {len(missing)} "
                              f"state(s) that next_state_dist reaches with positive probability from the initial state, e.g. {missing[0]}",
                              {"kind": "game", "lay": lay, "state": missing[0], "ja": 0, "clause": "reachable-states-not-closed"})
                nviol += 1
            continue
        # machinery cross-check: independent Python statement of the relation on a sample of traces
        if ti % 7 == 0:
            mine = set()
            for k, row in enumerate(tr["rows"]):
                for o in row:
                    for c in py_clauses(lay, n, divmod(k, 5), o["n"]):
                        mine.add((k + 1, str(o["n"]), c))
            theirs = {(b["ja"], str(b["n"]), b["c"]) for b in badset if b["c"] not in ("sum", "terminal-pays", "marginal", "marginal-sum", "normalize")}
            if mine != theirs:
                raise TLCFailure(f"TLA+ relation and Python relation disagree on layout {li} state {n}: {sorted(mine ^ theirs)[:4]}")
            ctx.count("relation_crosschecks")
        if v["accept"]:
            ctx.validated += 1
        else:
            by_clause = {}
            for b in badset:
                by_clause.setdefault(b["c"], b)
            for c, b in sorted(by_clause.items()):
                k = b["ja"] - 1
                site = ("joint_rewards" if c == "terminal-pays" else
                        "next_state_dist+marginalize" if c.startswith("marginal") else
                        "next_state_dist+normalize" if c == "normalize" else "next_state_dist")
                shape = game_shape(lay, n, divmod(k, 5)) + ("+after-in-place-simulation-on-same-game" if after_history else "")
                row = events_here[str(n)][k]
                ctx.violation(f"C18:TabularGridGame.{site}:{c}:{shape}",
                              f"layout {li} state {n} joint action {[ACTS[a] for a in divmod(k, 5)]}: outcome {b['n']} breaks '{c}' "
                              f"(row: {[(o['n'], o['p']) for o in row]})",
                              {"kind": "game", "lay": lay, "state": n, "ja": k, "clause": c})
                nviol += 1
        # ---- A (DRIFT level): the exact distribution and rewards of the reference machine
        ok_ref = True
        for k, row in enumerate(events_here[str(n)]):
            a1, a2 = divmod(k, 5)
            rec = expect.get((li, str(n), a1, a2))
            if rec is None:
                ok_ref = False
                ctx.count("real_state_not_reached_by_reference_machine")
                break
            sd = spec_dist(rec)
            if (ti + k) % 41 == 0:
                pd = py_ref_dist(lay, n, (a1, a2))
                if set(pd) != set(sd) or any(pd[x] != sd[x][0] for x in pd):
                    raise TLCFailure(f"TLA+ reference distribution and Python one disagree: layout {li} state {n} ja {k}: {pd} vs {sd}")
                ctx.count("refdist_crosschecks")
            if lay.get("_tiny"):
                # surrogate fence probability in the spec: supports and rewards from TLC, probabilities from the
                # independent exact oracle with the real 10^-k
                pd_ = py_ref_dist(lay, n, (a1, a2), p=F(1, 10 ** lay["_tiny"]))
                if set(pd_) == set(sd):
                    sd = {x: (pd_[x], sd[x][1]) for x in sd}
            real = {str(o["n"]): o for o in row}
            why = None
            if set(real) != set(sd):
                why = f"support {sorted(real)} vs {sorted(sd)}"
            else:
                for x, o in real.items():
                    ex, rew = sd[x]
                    if abs(o["p"] - float(ex)) > 1e-9 * float(ex) + 1e-15:
                        why = f"P({x}) = {o['p']} vs {float(ex)} ({ex})"
                    elif any(not abs(o["r"][i] - rew[i]) <= 1e-9 for i in range(2)):
                        why = f"rewards at {x}: {o['r']} vs {rew}"
            if why:
                ok_ref = False
                ctx.drift("reference-distribution", {"layout": digest(lay), "state": n, "ja": k, "why": why})
                break
            if nontrivial_pair(lay, n, (a1, a2)):
                ctx.nontrivial(f"{digest(lay)}:{n}:{k}")
        if ok_ref:
            ctx.count("expansions_equal_to_reference_machine")
    # reachable sets: real closure vs reference machine vs the library's reachable_states()
    for li, r in enumerate(recs, start=1):
        mine = {str(n) for n in r["states"]}
        if not r["capped"] and mc_states.get(li, set()) != mine:
            ctx.drift("reachable-set-vs-reference-machine",
                      {"layout": digest(r["lay"]), "only_real": sorted(mine - mc_states.get(li, set()))[:3],
                       "only_machine": sorted(mc_states.get(li, set()) - mine)[:3]})
        if isinstance(r["lib_states"], str):
            ctx.drift("reachable_states-raises", {"layout": digest(r["lay"]), "exc": r["lib_states"]})
        elif not r["capped"] and not mine - set(r["lib_states"]) and (set(r["lib_states"]) != mine or r["lib_n"] != len(mine)):
            ctx.drift("reachable_states-vs-closure",
                      {"layout": digest(r["lay"]), "closure": len(mine), "reachable_states": r["lib_n"],
                       "missing": sorted(mine - set(r["lib_states"]))[:3], "extra": sorted(set(r["lib_states"]) - mine)[:3]})
        else:
            ctx.count("layouts_reachable_states_equal_closure")
        if r["init_n"] != 1:
            ctx.drift("initial-state-dist", {"layout": digest(r["lay"]), "support": r["init_n"]})
    return nviol


def game_shape(lay, s, ja):
    """Input shape for signatures: what is around the agents in this (state, joint action)."""
    if s == T:
        return "terminal-state"
    own = lambda i, c: any(g["cell"] == list(c) and (i + 1) in g["owners"] for g in lay["goals"])
    if own(0, s[0]) or own(1, s[1]):
        return "own-goal-state"
    feats = set()
    obst = {tuple(c) for c in lay["obst"]}
    walls = {(tuple(a), tuple(b)) for a, b in lay["walls"]}
    fences = {(tuple(a), tuple(b)) for a, b in lay["fences"]}
    raw = []
    for i in range(2):
        c = tuple(s[i])
        t = (c[0] + ACTS[ja[i]][0], c[1] + ACTS[ja[i]][1])
        raw.append(t)
        if not (0 <= t[0] < lay["W"] and 0 <= t[1] < lay["H"]):
            feats.add("border")
        if t in obst:
            feats.add("obstacle")
        if (c, t) in walls:
            feats.add("wall")
        if (c, t) in fences:
            feats.add("fence")
    if raw[0] == raw[1]:
        feats.add("same-target")
    if raw[0] == tuple(s[1]) and raw[1] == tuple(s[0]):
        feats.add("swap-attempt")
    if any(list(t) in [g["cell"] for g in lay["goals"]] for t in raw):
        feats.add("goal-target")
    if not lay["hack"]:
        feats.add("collision_prob=.5")
    return "+".join(sorted(feats)) or "free-move"


def nontrivial_pair(lay, s, ja):
    if s == T:
        return False
    sh = game_shape(lay, s, ja)
    return any(f in sh for f in ("border", "obstacle", "wall", "fence", "same-target", "swap-attempt", "own-goal-state"))


def judge_game_errors(ctx, recs):
    """A reachable state on which next_state_dist raises has no distribution at all."""
    n = 0
    for r in recs:
        if r["error"]:
            ctx.violation(f"C18:TabularGridGame.next_state_dist:raises-{r['error']['exc'].split(':')[0]}",
                          f"layout\n{r['string']}\nstate {r['error']['state']}: {r['error']['exc']}",
                          {"kind": "game", "lay": r["lay"], "state": r["error"]["state"], "ja": 0, "clause": "raises"})
            n += 1
        he = (r.get("hist") or {}).get("error")
        if he:
            ctx.violation(f"C18:TabularGridGame.next_state_dist:raises-{he['exc'].split(':')[0]}:after-call-history-on-same-game",
                          f"layout\n{r['string']}\nafter a bounded exploration and a simulation loop on the same game object: {he['exc']}",
                          {"kind": "game", "lay": r["lay"], "state": he["state"], "ja": 0, "clause": "raises"})
            n += 1
    return n


def make_layouts(rng, tier):
    sizes = list(SIZES_QUICK)
    if tier == "thorough":
        sizes = sizes * 5 + [(4, 4)] * 4 + [(4, 3)] * 4 + [(5, 3), (3, 5)]
    return [rand_layout(rng, W, H) for (W, H) in sizes] + handmade_layouts()


def handmade_layouts():
    """Corner inputs named in the quantifier, fixed."""
    def base(W, H, init, **kw):
        d = {"W": W, "H": H, "obst": [], "walls": [], "fences": [], "goals": [], "init": init, "PN": 1, "PD": 2, "hack": 1,
             "GR": 10, "SC": -1, "CC": -3, "_walls": [], "_fences": [], "_custom": False}
        d.update(kw)
        for key, src in (("walls", "_walls"), ("fences", "_fences")):
            d[key] = [[c, [c[0] + DIRS[dn][0], c[1] + DIRS[dn][1]]] for c, dn in d[src]]
        return d
    return [
        # corridor: swap and same-target attempts, shared goal in the middle
        base(3, 1, [[0, 0], [2, 0]], goals=[{"cell": [1, 0], "owners": [1, 2]}]),
        base(3, 1, [[0, 0], [2, 0]]),
        base(2, 1, [[0, 0], [1, 0]], hack=0),
        # absorbing initial state (agent starts on its own goal)
        base(2, 2, [[0, 0], [1, 1]], goals=[{"cell": [0, 0], "owners": [1]}]),
        # an agent standing on the *other* agent's goal: a plain cell for collisions-with-skip, not absorbing
        base(2, 2, [[0, 0], [1, 0]], goals=[{"cell": [0, 0], "owners": [2]}, {"cell": [1, 0], "owners": [1]}]),
        base(2, 2, [[0, 0], [1, 0]], goals=[{"cell": [0, 0], "owners": [2]}, {"cell": [1, 0], "owners": [1]}], hack=0),
        # walls and fences on both sides of an edge, fence probabilities 0 and 1
        base(3, 2, [[0, 0], [2, 1]], _walls=[[[1, 0], "left"], [[1, 1], "above"], [[0, 1], "right"]],
             _fences=[[[1, 0], "right"], [[2, 0], "left"], [[0, 0], "above"]], PN=0, PD=1,
             goals=[{"cell": [2, 0], "owners": [1]}, {"cell": [0, 1], "owners": [2]}]),
        base(3, 2, [[0, 0], [2, 1]], _walls=[[[1, 0], "left"]], _fences=[[[1, 0], "right"], [[0, 0], "right"], [[2, 1], "below"]],
             PN=1, PD=1, obst=[[1, 1]], goals=[{"cell": [2, 0], "owners": [1]}]),
        # the lower row can only be entered across a fence that is crossed with a very small positive probability
        base(3, 2, [[0, 1], [2, 1]], _fences=[[[0, 1], "below"], [[1, 1], "below"], [[2, 1], "below"]], _tiny=9,
             goals=[{"cell": [0, 0], "owners": [2]}, {"cell": [2, 0], "owners": [1]}], _pad="aligned"),
        base(3, 3, [[0, 2], [1, 2]], _fences=[[[0, 2], "below"], [[1, 2], "below"], [[2, 2], "below"], [[1, 1], "below"]], _tiny=12,
             obst=[[0, 1]], goals=[{"cell": [2, 0], "owners": [1, 2]}], _pad="tabs"),
        # the library's own column-aligned example (cells separated by runs of blanks, indented block)
        base(9, 3, [[3, 1], [5, 1]], obst=[[x, y] for y in (0, 2) for x in range(9) if x != 4],
             goals=[{"cell": [4, 2], "owners": [1]}, {"cell": [0, 1], "owners": [1]}, {"cell": [8, 1], "owners": [2]},
                    {"cell": [4, 0], "owners": [2]}], _pad="indent"),
    ]


def run_game(ctx):
    rng = random.Random(ctx.seed * 1009 + 18)
    lays = make_layouts(rng, ctx.tier)
    recs = []
    for lay in lays:
        recs.append(record_layout(ctx, lay))
    ctx.count("layouts", len(recs))
    ctx.count("real_states_expanded", sum(len(r["events"]) for r in recs))
    judge_game_errors(ctx, recs)
    good = [r for r in recs if not r["error"]]
    chunk = 30 if ctx.tier == "quick" else 40
    for k in range(0, len(good), chunk):
        game_pipeline(ctx, good[k:k + chunk], tag=str(k))
    for r in good[:2]:
        ctx.sample({"layout": r["string"], "options": {k: r["lay"][k] for k in ("PN", "PD", "hack", "GR", "SC", "CC")},
                    "reachable_states": len(r["states"]),
                    "one_row": [(o["n"], o["p"]) for o in r["events"][str(r["states"][0])][7]]})


# ================================================================================================
# part 2: factor tables
# ================================================================================================
FACTOR_CFG = """INIT Init
NEXT Next
CHECK_DEADLOCK FALSE
INVARIANT Emit
INVARIANT JoinLaw
INVARIANT JoinCommutes
INVARIANT IndependentProduct
INVARIANT MixLaw
INVARIANT MargLaw
INVARIANT NormLaw
INVARIANT StackWellFormed
INVARIANT ExponentClasses
INVARIANT ClassOfProduct
"""
FACTOR_INVS = ["JoinLaw", "JoinCommutes", "IndependentProduct", "MixLaw", "MargLaw", "NormLaw", "StackWellFormed",
               "ExponentClasses", "ClassOfProduct"]
LN10 = math.log(10.0)

# leaf variables (paths in the nested dictionaries) and their top-level key
PATHS = {1: ("a",), 2: ("b",), 3: ("c", "x"), 4: ("c", "y"), 5: ("d", "p", "q"), 6: ("d", "r")}
TOPS = [1, 2, 3, 3, 4, 4]
VALUE_LABELS = [
    [0, 1, 2],
    ["u", "v", "w"],
    [(0,), (0, 1), "s"],
    [None, 7, "x"],
    [(0, 0), (0, 1), (1, 0)],
    [[0], [0, 1], None],          # unhashable, unsortable values
]
SCALES = [(1, 2), (1, 2), (1, 4), (3, 4), (1, 1), (2, 1), (1, 10), (9, 10), (0, 1)]


def rand_table(rng, vs, nvals=3, zero=0.25, maxrows=5):
    vs = list(vs)
    rng.shuffle(vs)
    allv = [[]]
    for _ in vs:
        allv = [a + [v] for a in allv for v in range(nvals)]
    rng.shuffle(allv)
    n = rng.randint(1, min(maxrows, len(allv)))
    rows = [{"vals": vals, "w": 0 if rng.random() < zero else rng.randint(1, 3)} for vals in allv[:n]]
    return {"vars": vs, "rows": rows, "den": rng.choice([1, 1, 2, 4])}


def instr(op, k=0, n=1, d=1, keep=(), e=0):
    """e: decimal exponent class of a scaling factor (n / d) * 10^e."""
    return {"op": op, "k": k, "n": n, "d": d, "e": e, "keep": list(keep)}


# extreme weight classes: pairs / chains of decimal exponents whose sum leaves (or just touches) the float range
# exp(-745.1) = 0, exp(709.8) = inf: 10^-323 ~ exp(-743.7), 10^308 ~ exp(709.2)
XPAIRS = [(-170, -170), (-161, -162), (-160, -162), (-250, -250), (-200, -140), (170, 170), (200, 150), (154, 154),
          (155, 154), (250, 250), (-170, 0), (0, 200), (-250, 250), (350, 0), (-400, 0), (330, -20), (10, 380)]


def small_table(rng, vs, nvals=3, maxrows=3, zero=0.15):
    """Small mantissas (1..2, denominator 1) so that long chains of products stay inside TLC's integers."""
    t = rand_table(rng, vs, nvals=nvals, zero=zero, maxrows=maxrows)
    for r in t["rows"]:
        r["w"] = min(r["w"], 2)
    t["den"] = 1
    return t


def in_order(tab, order):
    """Same table, variables listed in the given key order."""
    idx = [tab["vars"].index(v) for v in order]
    return {"vars": list(order), "den": tab["den"], "rows": [{"vals": [r["vals"][i] for i in idx], "w": r["w"]} for r in tab["rows"]]}


def reorder(tab, rng):
    """Same table, variables listed in another key order."""
    perm = list(range(len(tab["vars"])))
    rng.shuffle(perm)
    return {"vars": [tab["vars"][i] for i in perm], "den": tab["den"],
            "rows": [{"vals": [r["vals"][i] for i in perm], "w": r["w"]} for r in tab["rows"]]}


def rand_vars(rng, lo=1, hi=3):
    return rng.sample([1, 2, 3, 4, 5, 6], rng.randint(lo, hi))


class _Screened(list):
    """List of factor programs that only accepts programs whose integers stay inside the overflow guard."""

    def append(self, case):
        if magnitudes_ok(case):
            super().append(case)
        else:
            _DROPPED[0] += 1


INT_LIM = 2 ** 30 - 1          # Num!Safe's overflow guard (TLC integers are 32-bit)
_DROPPED = [0]


def magnitudes_ok(case):
    """Exact integer simulation of the spec's table representation (numerators w, denominator den): every product
    that the operators of FactorTable.tla / C18_Factor.tla or their invariants form for this program stays below the
    overflow guard.  Programs that do not are re-drawn (and counted): an overflow is a machinery failure, never a verdict."""
    big = [0]

    def see(*xs):
        for x in xs:
            big[0] = max(big[0], abs(x))

    stack = []
    for ins in case["prog"]:
        op = ins["op"]
        if op == "load":
            t = case["tabs"][ins["k"] - 1]
            stack.append(({tuple(sorted(zip(t["vars"], r["vals"]))): r["w"] for r in t["rows"]}, t["den"]))
        elif op in ("scale", "div"):
            fn, den = stack.pop()
            a, b = (ins["n"], ins["d"]) if op == "scale" else (ins["d"], ins["n"])
            fn = {k: w * a for k, w in fn.items()}
            den *= b
            see(den, *fn.values())
            stack.append((fn, den))
        elif op == "and":
            (f2, d2), (f1, d1) = stack.pop(), stack.pop()
            out = {}
            for k1, w1 in f1.items():
                for k2, w2 in f2.items():
                    a, b = dict(k1), dict(k2)
                    if all(a[v] == b[v] for v in a if v in b):
                        a.update(b)
                        out[tuple(sorted(a.items()))] = w1 * w2
            t1, t2 = sum(f1.values()), sum(f2.values())
            # JoinLaw / IndependentProduct: w1*w2, Total1*Total2, w1*Total2; den1*den2
            see(d1 * d2, t1 * t2, max(f1.values(), default=0) * max(t2, max(f2.values(), default=0)), sum(out.values()))
            stack.append((out, d1 * d2 if out else 1))
        elif op == "or":
            (f2, d2), (f1, d1) = stack.pop(), stack.pop()
            if not f1:
                stack.append((f2, d2))
            elif not f2:
                stack.append((f1, d1))
            else:
                out = {k: f1.get(k, 0) * d2 + f2.get(k, 0) * d1 for k in list(f1) + [k for k in f2 if k not in f1]}
                mw = max(out.values(), default=0)
                # MixWeight, and MixLaw's cross products WOf(x)*den1*den2 and MixWeight*x.den
                see(d1 * d2, mw, mw * d1 * d2, sum(out.values()),
                    max(f1.values(), default=0) * d2, max(f2.values(), default=0) * d1)
                stack.append(({k: w for k, w in out.items() if w > 0}, d1 * d2))
        elif op == "marg":
            fn, den = stack.pop()
            out = {}
            for k, w in fn.items():
                kk = tuple(sorted((v, x) for v, x in k if v in ins["keep"]))
                out[kk] = out.get(kk, 0) + w
            see(sum(out.values()))
            stack.append((out, den))
        elif op == "norm":
            fn, den = stack.pop()
            tot = sum(fn.values())
            see(tot)
            stack.append((fn, tot if tot > 0 else den))
        if big[0] > INT_LIM:
            return False
    return True


def make_factor_cases(rng, n):
    cases = _Screened()
    while len(cases) < n:
        kind = rng.choice(["and", "and", "and3", "or", "or", "or3", "fence", "andmarg", "indep",
                           "xand", "xand", "xchain", "xscale", "xor", "xmarg", "scalemarg", "fencemarg", "and3marg",
                           "normmix", "normmix", "scalenorm", "ornorm", "normdiv"])
        lab = rng.randrange(len(VALUE_LABELS))
        exps = None
        if kind == "xand":          # two ordinary-looking tables whose product leaves the float range
            vs = rand_vars(rng, 1, 2)
            tabs = [rand_table(rng, vs + [v for v in rand_vars(rng, 0, 1) if v not in vs], zero=0.15),
                    rand_table(rng, vs + [v for v in rand_vars(rng, 0, 1) if v not in vs], zero=0.15), rand_table(rng, vs)]
            exps = list(rng.choice(XPAIRS)) + [0]
            prog = [instr("load", 1), instr("load", 2), instr("and")]
            ctor = [rng.choice(["probs", "logits", "scores"] if abs(x) <= 250 else ["logits", "scores"]) for x in exps]
            cases.append({"tabs": tabs, "prog": prog, "top": TOPS, "lab": lab, "exps": exps, "ctor": ctor})
            continue
        elif kind == "xchain":      # a chain of conjunctions of tiny (or huge) tables over one variable
            v = rng.choice([1, 2, 3, 4, 5, 6])
            k = rng.randint(3, 8)
            tabs = [small_table(rng, [v] + ([w for w in rand_vars(rng, 1, 1) if w != v] if rng.random() < 0.25 else []))
                    for _ in range(k)]
            step = rng.choice([-50, -60, -95, 45, 90, -41])
            exps = [step] * k
            prog = [instr("load", 1)]
            for j in range(2, k + 1):
                prog += [instr("load", j), instr("and")]
        elif kind == "xscale":      # (p * 1e-200) * 1e-200 & q
            vs = rand_vars(rng, 1, 2)
            tabs = [rand_table(rng, vs, zero=0.15), rand_table(rng, vs + [v for v in rand_vars(rng, 0, 1) if v not in vs], zero=0.15),
                    rand_table(rng, vs)]
            exps = [0, rng.choice([0, 0, -100, 60]), 0]
            (a, b), (c, d) = rng.choice(SCALES[:-1]), rng.choice(SCALES[:-1])
            e1, e2 = rng.choice([(-200, -200), (-200, -150), (180, 180), (-250, -100), (200, 110)])
            prog = [instr("load", 1), instr("scale", n=a, d=b, e=e1), instr("scale", n=c, d=d, e=e2), instr("load", 2), instr("and")]
        elif kind == "xor":         # a weighted mixture of two tables of the same (ordinary) class
            vs = rand_vars(rng, 1, 2)
            t1 = rand_table(rng, vs)
            t2 = rand_table(rng, vs)
            t2["vars"] = list(t1["vars"])
            x = rng.choice([-150, -90, 120, 200])
            (a, b), (c, d) = rng.choice(SCALES), rng.choice(SCALES)
            e = rng.choice([0, 0, -40, 30])
            tabs, exps = [t1, t2, dict(t1)], [x - e, x - e, 0]
            prog = [instr("load", 1), instr("scale", n=a, d=b, e=e), instr("load", 2), instr("scale", n=c, d=d, e=e), instr("or")]
        elif kind == "xmarg":       # marginal of a product whose class is still an ordinary float
            vs = rand_vars(rng, 1, 2)
            tabs = [rand_table(rng, vs + [v for v in rand_vars(rng, 1, 1) if v not in vs], zero=0.1),
                    rand_table(rng, vs + [v for v in rand_vars(rng, 0, 1) if v not in vs], zero=0.1), rand_table(rng, vs)]
            exps = list(rng.choice([(-90, -90), (-100, -100), (95, 100), (-150, 20), (60, 0)])) + [0]
            allv = tabs[0]["vars"] + [v for v in tabs[1]["vars"] if v not in tabs[0]["vars"]]
            keep = [v for v in allv if rng.random() < 0.5] or allv[:1]
            prog = [instr("load", 1), instr("load", 2), instr("and"), instr("marg", keep=keep)]
        elif kind == "scalemarg":   # marginal of a scaled table (raw weights do not sum to one)
            vs = rand_vars(rng, 2, 3)
            tabs = [rand_table(rng, vs, zero=0.1), rand_table(rng, vs[:1]), rand_table(rng, vs[:1])]
            a, b = rng.choice(SCALES[:-1])
            keep = [v for v in tabs[0]["vars"] if rng.random() < 0.5] or tabs[0]["vars"][:1]
            prog = [instr("load", 1), instr("scale", n=a, d=b, e=rng.choice([0, 0, -3, 2])), instr("marg", keep=keep)]
        elif kind == "and3marg":    # marginal after joins with shared variables
            vs = rand_vars(rng, 2, 3)
            tabs = [rand_table(rng, rng.sample(vs, rng.randint(1, len(vs))), zero=0.1) for _ in range(3)]
            allv = []
            for t in tabs:
                allv += [v for v in t["vars"] if v not in allv]
            keep = [v for v in allv if rng.random() < 0.5] or allv[:1]
            prog = [instr("load", 1), instr("load", 2), instr("and"), instr("load", 3), instr("and"), instr("marg", keep=keep)]
        elif kind == "normmix":     # (p & q).normalize() * a | r * b: a weighted mixture of the normalised join and r
            vs1, vs2 = rand_vars(rng, 1, 2), rand_vars(rng, 1, 2)
            t1, t2 = rand_table(rng, vs1, zero=0.1), rand_table(rng, vs2, zero=0.1)
            merged = t1["vars"] + [v for v in t2["vars"] if v not in t1["vars"]]
            t3 = in_order(rand_table(rng, merged, zero=0.15), merged)
            (a, b), (c, d) = rng.choice(SCALES[:-1]), rng.choice(SCALES[:-1])
            tabs = [t1, t2, t3]
            exps = list(rng.choice([(0, 0), (0, 0), (-3, 0), (-60, -70), (40, 55), (0, 2)])) + [0]
            prog = [instr("load", 1), instr("load", 2), instr("and"), instr("norm"), instr("scale", n=a, d=b),
                    instr("load", 3), instr("scale", n=c, d=d), instr("or")]
        elif kind == "scalenorm":   # (p * a).normalize() * b | q * c
            vs = rand_vars(rng, 1, 2)
            t1 = rand_table(rng, vs, zero=0.1)
            t2 = in_order(rand_table(rng, vs), t1["vars"])
            (a, b), (c, d), (e, f) = rng.choice(SCALES[:-1]), rng.choice(SCALES[:-1]), rng.choice(SCALES[:-1])
            tabs, exps = [t1, t2, dict(t1)], [rng.choice([0, 0, -20, 7]), 0, 0]
            prog = [instr("load", 1), instr("scale", n=a, d=b, e=rng.choice([0, -5, 3])), instr("norm"), instr("scale", n=c, d=d),
                    instr("load", 2), instr("scale", n=e, d=f), instr("or")]
        elif kind == "ornorm":      # (p * a | q * b).normalize() & r
            vs = rand_vars(rng, 1, 2)
            t1 = rand_table(rng, vs, zero=0.1)
            t2 = in_order(rand_table(rng, vs, zero=0.1), t1["vars"])
            t3 = rand_table(rng, vs[:1] + [v for v in rand_vars(rng, 0, 1) if v not in vs])
            (a, b), (c, d) = rng.choice(SCALES[:-1]), rng.choice(SCALES[:-1])
            tabs = [t1, t2, t3]
            prog = [instr("load", 1), instr("scale", n=a, d=b), instr("load", 2), instr("scale", n=c, d=d), instr("or"),
                    instr("norm"), instr("load", 3), instr("and")]
        elif kind == "normdiv":     # ((p & q) / k).normalize()
            vs = rand_vars(rng, 1, 2)
            tabs = [rand_table(rng, vs + [v for v in rand_vars(rng, 0, 1) if v not in vs], zero=0.1),
                    rand_table(rng, vs, zero=0.1), rand_table(rng, vs)]
            a, b = rng.choice(SCALES[:-1])
            exps = list(rng.choice([(0, 0), (-30, 0), (20, 20)])) + [0]
            prog = [instr("load", 1), instr("load", 2), instr("and"), instr("div", n=a, d=b, e=rng.choice([0, 4, -6])), instr("norm")]
        if kind in ("xand", "xchain", "xscale", "xor", "xmarg", "scalemarg", "and3marg", "normmix", "scalenorm", "ornorm", "normdiv"):
            big = max(abs(x) for x in (exps or [0]))
            cases.append({"tabs": tabs, "prog": prog, "top": TOPS, "lab": lab, "exps": exps or [0] * len(tabs),
                          # 10^300 is no float: beyond +-250 (not generated) only logits could be given
                          "ctor": [rng.choice(["probs", "logits", "scores"] if big <= 250 else ["logits", "scores"]) for _ in tabs]})
            continue
        if kind == "fencemarg":
            kind = "fence+marg"
        if kind in ("and", "and3", "andmarg"):
            tabs = [rand_table(rng, rand_vars(rng)) for _ in range(3)]
            prog = [instr("load", 1), instr("load", 2), instr("and")]
            if kind == "and3":
                prog += [instr("load", 3), instr("and")]
            if kind == "andmarg":
                allv = tabs[0]["vars"] + [v for v in tabs[1]["vars"] if v not in tabs[0]["vars"]]
                keep = [v for v in allv if rng.random() < 0.5] or allv[:1]
                prog += [instr("marg", keep=keep)]
        elif kind == "indep":
            vs = rng.sample([1, 2, 3, 4, 5, 6], rng.randint(2, 4))
            cut = rng.randint(1, len(vs) - 1)
            tabs = [rand_table(rng, vs[:cut]), rand_table(rng, vs[cut:]), rand_table(rng, vs[:1])]
            prog = [instr("load", 1), instr("load", 2), instr("and")]
            if rng.random() < 0.5:
                prog += [instr("marg", keep=tabs[0]["vars"])]
        elif kind in ("or", "or3"):
            vs = rand_vars(rng, 1, 3)
            same_order = rng.random() < 0.7 or len({TOPS[v - 1] for v in vs}) < 2
            t1 = rand_table(rng, vs)
            t2 = rand_table(rng, vs)
            t3 = rand_table(rng, vs)
            t2["vars"] = list(t1["vars"])
            t3["vars"] = list(t1["vars"])
            (a, b), (c, d), (e, f) = rng.choice(SCALES), rng.choice(SCALES), rng.choice(SCALES)
            if kind == "or":
                if not same_order:
                    t2 = reorder(t2, rng)
                tabs = [t1, t2, t3]
                prog = [instr("load", 1), instr("scale", n=a, d=b), instr("load", 2), instr("scale", n=c, d=d), instr("or")]
            else:
                if not same_order:
                    t3 = reorder(t3, rng)        # only the last operand may differ (rows of a mixture keep their own order)
                tabs = [t1, t2, t3]
                prog = [instr("load", 1), instr("scale", n=a, d=b), instr("load", 2), instr("scale", n=c, d=d), instr("or"),
                        instr("load", 3), instr("scale", n=e, d=f), instr("or")]
        else:   # fence-like: (move * p | stay * (1 - p)) & mask, as the grid game does
            vs = rand_vars(rng, 1, 2) if kind == "fence" else rand_vars(rng, 2, 2)
            t1 = rand_table(rng, vs, maxrows=3 if kind == "fence" else 4)
            t2 = {"vars": list(t1["vars"]), "rows": [dict(t1["rows"][0], w=1)], "den": 1}
            t3 = {"vars": list(t1["vars"]), "rows": [dict(r, w=rng.choice([0, 1])) for r in t1["rows"]], "den": 1}
            pn, pd = rng.choice(FENCE_PROBS)
            tabs = [t1, t2, t3]
            prog = [instr("load", 1), instr("scale", n=pn, d=pd), instr("load", 2), instr("scale", n=pd - pn, d=pd), instr("or"),
                    instr("load", 3), instr("and")]
            if kind == "fence+marg":    # marginal after a zero-weight constraint factor (the blocked-move mask)
                prog += [instr("marg", keep=t1["vars"][:1])]
        cases.append({"tabs": tabs, "prog": prog, "top": TOPS, "lab": lab, "exps": [0] * len(tabs),
                      "ctor": [rng.choice(["probs", "logits", "scores"]) for _ in tabs]})
    return cases


# ---------------------------------------------------------------------------------- building real tables
def make_event(vars_, vals, labels, paths):
    d = {}
    for v, x in zip(vars_, vals):
        path = paths[v]
        cur = d
        for key in path[:-1]:
            cur = cur.setdefault(key, {})
        cur[path[-1]] = labels[x]
    return d


def build_real(tab, labels, paths, ctor="probs", ex=0):
    """The real table with weights (w / den) * 10^ex, given as probs= or as logits= / scores=."""
    from msdm.core.distributions import DiscreteFactorTable as Pr
    import numpy as np
    support = [make_event(tab["vars"], r["vals"], labels, paths) for r in tab["rows"]]
    ws = [r["w"] / tab["den"] for r in tab["rows"]]
    if ctor == "probs":
        return Pr(support, probs=[w * 10.0 ** ex for w in ws])
    lg = [math.log(w) + ex * LN10 if w > 0 else -np.inf for w in ws]
    if ctor == "logits":
        return Pr(support, logits=lg)
    return Pr(support, scores=lg)


def flatten(ev, prefix=()):
    out = {}
    for k, v in ev.items():
        if isinstance(v, dict):
            out.update(flatten(v, prefix + (k,)))
        else:
            out[prefix + (k,)] = v
    return out


def real_fn(tab):
    """Real table -> list of (canonical assignment, prob, logit, element) in support order."""
    rows = []
    for e, p, lg in zip(tab.support, tab.probs, tab.logits):
        fl = flatten(e) if isinstance(e, dict) else {("?",): e}
        rows.append((frozenset((k, repr(v)) for k, v in fl.items()), float(p), float(lg), e))
    return rows


def mantissa(lg, ex):
    """exp(logit) / 10^ex without leaving the float range (nan stays nan)."""
    if lg == float("-inf"):
        return 0.0
    x = lg - ex * LN10
    return math.exp(x) if x < 700 else float("inf")


def spec_fn(tab, labels, paths):
    """Emitted table -> list of (canonical assignment, Fraction weight) in row order."""
    return [(frozenset((paths[v], repr(labels[x])) for v, x in zip(tab["vars"], r["vals"])), F(r["w"], tab["den"]))
            for r in tab["rows"]]


# independent (declarative, Fraction) statement of the operations, to cross-check the TLA+ emitted tables
def py_eval(case, upto):
    """Returns (positive mantissa function, decimal exponent class) of the table on top after `upto` steps."""
    stack, xs = [], []
    exps = case.get("exps") or [0] * len(case["tabs"])
    for ins in case["prog"][:upto]:
        op = ins["op"]
        if op == "load":
            t = case["tabs"][ins["k"] - 1]
            stack.append((tuple(t["vars"]), {tuple(sorted(zip(t["vars"], r["vals"]))): F(r["w"], t["den"]) for r in t["rows"]}))
            xs.append(exps[ins["k"] - 1])
        elif op == "scale":
            vs, fn = stack.pop()
            stack.append((vs, {k: w * F(ins["n"], ins["d"]) for k, w in fn.items()}))
            xs.append(xs.pop() + ins.get("e", 0))
        elif op == "div":
            vs, fn = stack.pop()
            stack.append((vs, {k: w / F(ins["n"], ins["d"]) for k, w in fn.items()}))
            xs.append(xs.pop() - ins.get("e", 0))
        elif op == "norm":
            vs, fn = stack.pop()
            tot = sum(fn.values())
            stack.append((vs, {k: w / tot for k, w in fn.items()} if tot > 0 else fn))
            xs.pop()
            xs.append(0)
        elif op == "and":
            x2, x1 = xs.pop(), xs.pop()
            xs.append(x1 + x2)
            (v2, f2), (v1, f1) = stack.pop(), stack.pop()
            out = {}
            for k1, w1 in f1.items():
                for k2, w2 in f2.items():
                    d1, d2 = dict(k1), dict(k2)
                    if all(d1[v] == d2[v] for v in d1 if v in d2):
                        d1.update(d2)
                        out[tuple(sorted(d1.items()))] = w1 * w2
            stack.append((tuple(v1) + tuple(v for v in v2 if v not in v1), out))
        elif op == "or":
            x2, x1 = xs.pop(), xs.pop()
            (v2, f2), (v1, f1) = stack.pop(), stack.pop()
            xs.append(x2 if not f1 else x1)
            if not f1:
                stack.append((v2, f2))
            elif not f2:
                stack.append((v1, f1))
            else:
                stack.append((v1, {k: f1.get(k, 0) + f2.get(k, 0) for k in list(f1) + [k for k in f2 if k not in f1]}))
        elif op == "marg":
            vs, fn = stack.pop()
            out = {}
            for k, w in fn.items():
                kk = tuple(sorted((v, x) for v, x in k if v in ins["keep"]))
                out[kk] = out.get(kk, 0) + w
            stack.append((tuple(ins["keep"]), out))
    vs, fn = stack[-1]
    return {k: w for k, w in fn.items() if w > 0}, xs[-1]


def run_real_factor(case, paths):
    """Replays the program on the real class.  Returns list per step of table or ('error', text)."""
    labels = VALUE_LABELS[case["lab"]]
    stack, outs = [], []
    with warnings.catch_warnings():
        warnings.simplefilter("ignore")
        for ins in case["prog"]:
            op = ins["op"]
            try:
                if op == "load":
                    stack.append(build_real(case["tabs"][ins["k"] - 1], labels, paths, case["ctor"][ins["k"] - 1],
                                            ex=(case.get("exps") or [0] * len(case["tabs"]))[ins["k"] - 1]))
                elif op == "scale":
                    t = stack.pop()
                    stack.append(t * (ins["n"] / ins["d"] * 10.0 ** ins.get("e", 0)))
                elif op == "div":
                    t = stack.pop()
                    stack.append(t / (ins["n"] / ins["d"] * 10.0 ** ins.get("e", 0)))
                elif op == "norm":
                    t = stack.pop()
                    stack.append(t.normalize())
                elif op == "and":
                    b, a = stack.pop(), stack.pop()
                    stack.append(a & b)
                elif op == "or":
                    b, a = stack.pop(), stack.pop()
                    stack.append(a | b)
                elif op == "marg":
                    t = stack.pop()
                    keep = [paths[v] for v in ins["keep"]]

                    def proj(e, keep=keep):
                        out = {}
                        for path in keep:
                            cur = e
                            for key in path:
                                cur = cur[key]
                            out[".".join(path)] = cur
                        return out
                    stack.append(t.marginalize(proj))
            except Exception as e:                    # noqa: BLE001 - judged
                outs.append(("error", f"{type(e).__name__}: {e}"[:200]))
                return outs
            outs.append(stack[-1])
    return outs


def compare_table(real, exp_rows, *, keys_flat=False, ex=0):
    """Compares a real table with the emitted one.  Returns three problem texts (or None each):
    probs   - the normalised probabilities (.probs) as a function of the assignment
    weights - the weights exp(logit) row by row, as mantissas exp(logit) / 10^ex of the decimal exponent class
              ex the spec tracked (the positive rows are exactly the expected ones)
    order   - support rows / their order (zero rows dropped or kept, loop order)"""
    rows = real_fn(real)
    if keys_flat:      # marginalize() results: projection made flat "c.x" keys
        rows = [(frozenset((tuple(k[0].split(".")), v) for k, v in key), p, w, e) for key, p, w, e in rows]
    pos = [(k, w) for k, w in exp_rows if w > 0]
    z = sum(w for _, w in pos)
    probs = weights = order = None
    want = {k: w / z for k, w in pos}
    got = {}
    for k, p, w, e in rows:
        if p != p:
            probs = f"probability of {e} is NaN"
        got[k] = got.get(k, 0.0) + p
    for k, p in got.items():
        if probs is None and p > 1e-12 and k not in want:
            probs = f"row {dict(k)} has probability {p} but is not in the expected table"
    for k, p in want.items():
        if probs is None and abs(got.get(k, 0.0) - float(p)) > 1e-9:
            probs = f"row {dict(k)}: probability {got.get(k, 0.0)} vs {float(p)} ({p})"
    wexp = dict(pos)
    wgot = {}
    for k, p, lg, e in rows:
        wgot[k] = wgot.get(k, 0.0) + mantissa(lg, ex)
    for k in list(wgot) + list(wexp):
        want_w = float(wexp.get(k, 0))
        if weights is None and not abs(wgot.get(k, 0.0) - want_w) <= 1e-9 * max(1.0, want_w):
            weights = f"weight exp(logit) of row {dict(k)} is {wgot.get(k, 0.0)}e{ex} vs {want_w}e{ex} ({wexp.get(k, 0)})"
    if [k for k, _, _, _ in rows] != [k for k, _ in exp_rows]:
        order = "support rows / order differ from the reference loops"
    return probs, weights, order


def factor_signature(note, what, upstream=(), ex=0, before=()):
    op = {"and": "product", "or": "mix", "marg": "marginalize", "norm": "normalize"}.get(note["op"], note["op"])
    if "norm" in upstream:
        op = "normalize+" + op        # the operand already differed after normalize()
    elif "scale" in upstream:
        op = "__mul__+" + op          # the weighted operand already differed after scaling
    elif "load" in upstream:
        op = "__init__+" + op
    if note["op"] == "and":
        shape = "disjoint-vars" if note["disjoint"] else ("same-vars" if note["samevars"] else "overlapping-vars")
    elif note["op"] == "or":
        shape = "same-vars-different-key-order" if note["keyorder"] else "same-vars"
    elif note["op"] in ("marg", "norm"):
        shape = "after-" + ("product" if "and" in before else "mix" if "or" in before else "scaling" if "scale" in before else "constructor")
    else:
        shape = "any"
    if not -300 <= ex <= 300:
        shape += "+weights-beyond-float-range"
    elif ex != 0:
        shape += "+extreme-weights"
    return f"C18:DiscreteFactorTable.{op}:{shape}:{what}"


def judge_factor_case(ctx, case, steps, paths, *, real=None, label=""):
    """steps: {step index: emitted record}.  Compares after every action."""
    labels = VALUE_LABELS[case["lab"]]
    outs = real if real is not None else run_real_factor(case, paths)
    ctx.evaluations += len(outs)
    ok = True
    violated = False
    upstream = []
    for si, out in enumerate(outs, start=1):
        rec = steps.get(si)
        if rec is None:
            raise TLCFailure(f"no emitted record for step {si} of factor case {label}")
        note = rec["note"]
        op = note["op"]
        exp_rows = spec_fn(rec["res"], labels, paths)
        # machinery cross-check: TLA+ table vs independent declarative Fraction evaluation
        mine, mine_ex = py_eval(case, si)
        ex = rec.get("ex", 0)
        if mine_ex != ex and not rec.get("_selftest_corrupted"):
            raise TLCFailure(f"TLA+ exponent class {ex} and Python one {mine_ex} disagree at step {si} of case {label}")
        theirs = {}
        for r in rec["res"]["rows"]:
            if r["w"] > 0:
                theirs[tuple(sorted(zip(rec["res"]["vars"], r["vals"])))] = F(r["w"], rec["res"]["den"])
        if mine != theirs and not rec.get("_selftest_corrupted"):
            raise TLCFailure(f"TLA+ table and Python table disagree at step {si} of case {label}: {mine} vs {theirs}")
        # marginalize(): "every table a public operation returns is normalised and equals the exact normalised
        # marginal" - judged unless a group has total weight zero (then log(0) = -inf enters the scores and the
        # constructor answers all-zero probabilities on the unchanged tree as well; counted, not judged)
        marg_clause = op == "marg" and not note.get("zerogroup", False) and any(w > 0 for _, w in exp_rows)
        # normalize() of a product: "the product ... is the *normalised* natural join": the row weights of the
        # normalised table are the normalised products and sum to one.  (After other operations: drift level, but a
        # later mixture that uses the table is still judged.)  A table without weight (Z = 0) is not judged at all.
        before = [i["op"] for i in case["prog"][:si - 1]]
        if op == "norm" and note.get("zerototal", False):
            ctx.count("normalize_of_table_without_weight_not_judged")
            outs = outs[:si - 1] + [None] * (len(case["prog"]) - si + 1)
            break
        norm_clause = op == "norm" and "and" in before
        clause_level = op == "and" or (op == "or" and note["samevars"]) or marg_clause or norm_clause
        if isinstance(out, tuple) and op == "marg" and not steps[si - 1]["res"]["rows"]:
            # marginalize() of an empty table raises ValueError (zip(*[])): outside the statement, counted
            ctx.count("marginalize_of_empty_table_raises")
            outs = outs[:si - 1] + [None] * (len(case["prog"]) - si + 1)
            break
        if isinstance(out, tuple):
            ok = False
            if clause_level:
                ctx.violation(factor_signature(note, "raises-" + out[1].split(":")[0]),
                              f"{op} raised {out[1]} (operands over {'the same' if note['samevars'] else 'different'} variables)",
                              {"kind": "factor", "case": case, "paths": {str(k): list(v) for k, v in paths.items()}, "step": si})
                violated = True
            else:
                ctx.drift(f"factor-{op}-raises", {"case": digest(case), "exc": out[1]})
            break
        pr, wt, od = compare_table(out, exp_rows, keys_flat=(op == "marg"), ex=ex)
        rows = real_fn(out)
        if op == "and":
            # "the product ... is the normalised natural join of their rows with multiplied weights"
            prob, dr = pr, (wt or od)
        elif op == "or":
            # "a weighted mixture ... adds their weights row by row"; .probs of the result are the constructor's
            # business when an operand is empty (mix returns the other operand itself)
            prob = wt
            dr = (pr if not note.get("anyempty", False) and rows and not all(p == 0.0 for _, p, _, _ in rows) else None) or od
            if pr is not None and dr is None:
                ctx.count("mix_returned_operand_with_unnormalised_probs")
        elif marg_clause:
            prob, dr = pr, (wt or od)
        elif norm_clause:
            prob, dr = wt, od
        else:
            # constructor / scaling / marginal with an empty group: outside the statement, weights only
            prob, dr = None, (wt or od)
            # side observation: .probs of a table built from logits with a -inf entry are all zero
            if rows and all(p == 0.0 for _, p, _, _ in rows) and any(lg > float("-inf") for _, _, lg, _ in rows):
                ctx.count(f"{op}_result_probs_all_zero_because_one_row_has_weight_zero")
        if prob is not None:
            ok = False
            if clause_level:
                ctx.violation(factor_signature(note, "wrong-weights" if op in ("or", "norm") else "wrong-probabilities", upstream, ex,
                                               before), f"{op}: {prob}",
                              {"kind": "factor", "case": case, "paths": {str(k): list(v) for k, v in paths.items()}, "step": si})
                violated = True
            else:
                ctx.drift(f"factor-{op}", {"case": digest(case), "why": prob})
            break
        if dr is not None:
            ok = False
            ctx.drift(f"factor-{op}-representation", {"case": digest(case), "step": si, "why": dr})
            if op in ("and", "or", "marg"):
                break
            upstream.append(op)       # constructor / scaling differs: the clause-level steps that use it are still judged
    if ok and len(outs) == len(case["prog"]):
        ctx.validated += 1
    return violated


def factor_nontrivial(case):
    ops = [i["op"] for i in case["prog"]]
    t1, t2 = case["tabs"][0], case["tabs"][1]
    zero = any(r["w"] == 0 for t in case["tabs"][:2] for r in t["rows"])
    if "and" in ops and "or" not in ops:
        return bool(set(t1["vars"]) & set(t2["vars"])) and (zero or len(t1["rows"]) * len(t2["rows"]) > 1)
    return len(t1["rows"]) + len(t2["rows"]) > 2


def factor_batch_tlc(ctx, cases, tag=""):
    batch = [{"tabs": c["tabs"], "prog": c["prog"], "top": c["top"], "exps": c.get("exps") or [0] * len(c["tabs"])} for c in cases]
    return run_tlc(ctx.workdir / f"factor_batch{tag}", "C18_Factor", FACTOR_CFG, files={"batch.json": batch},
                   env={"BATCH_FILE": "batch.json", "MODE": "batch", "EXH": "none", **JVM}, coverage=(ctx.tier == "thorough"), heap="3g")


def factor_exh_tlc(ctx, family):
    return run_tlc(ctx.workdir / f"factor_exh_{family}", "C18_Factor", FACTOR_CFG,
                   env={"BATCH_FILE": "none", "MODE": "exh", "EXH": family, **JVM}, timeout=3000, heap="3g")


def run_factor_batch(ctx, cases, *, mutate_expect=None, real=None, res=None):
    if res is None:
        res = factor_batch_tlc(ctx, cases)
    ctx.add_tlc(res, "factor batch: sampled programs of DiscreteFactorTable operations, laws as invariants")
    bad = [v for v in res.violated if v in FACTOR_INVS]
    if bad:
        raise TLCFailure(f"design-level invariant violated in C18_Factor: {sorted(set(bad))}\n" + (res.traces[0][:3000] if res.traces else ""))
    steps = {}
    for r in res.records:
        steps.setdefault(r["iid"], {})[r["step"]] = r
    if mutate_expect:
        mutate_expect(steps)
    nv = 0
    for i, c in enumerate(cases, start=1):
        if judge_factor_case(ctx, c, steps.get(i, {}), PATHS, real=(real[i - 1] if real else None), label=str(i)):
            nv += 1
        if factor_nontrivial(c):
            ctx.nontrivial("factor:" + digest({"t": c["tabs"], "p": c["prog"]}))
    return nv


EXH_PATHS = {1: ("a",), 2: ("b",), 3: ("c",)}


def run_factor_exh(ctx, family, res=None):
    if res is None:
        res = factor_exh_tlc(ctx, family)
    ctx.add_tlc(res, f"factor exh/{family}: every pair of tables of the family x (product | mixture), laws as invariants")
    bad = [v for v in res.violated if v in FACTOR_INVS]
    if bad:
        raise TLCFailure(f"design-level invariant violated in C18_Factor (exh): {sorted(set(bad))}\n" + (res.traces[0][:3000] if res.traces else ""))
    n = 0
    for r in res.records:
        op = r["note"]["op"]
        case = {"tabs": [r["t1"], r["t2"]], "prog": [instr("load", 1), instr("load", 2), instr(op)], "top": [1, 2, 3],
                "lab": n % 2, "ctor": ["probs", "logits"] if n % 3 else ["logits", "probs"]}
        # steps 1, 2 are the constructors: expected = the tables themselves
        steps = {1: {"note": {"op": "load", "samevars": False, "keyorder": False, "disjoint": False, "anyempty": False}, "res": r["t1"], "ex": 0},
                 2: {"note": {"op": "load", "samevars": False, "keyorder": False, "disjoint": False, "anyempty": False}, "res": r["t2"], "ex": 0},
                 3: {"note": r["note"], "res": r["res"], "ex": r.get("ex", 0)}}
        judge_factor_case(ctx, case, steps, EXH_PATHS, label=f"exh{n}")
        if factor_nontrivial(case):
            ctx.nontrivial("factor:" + digest({"t": case["tabs"], "p": op}))
        n += 1
    ctx.count(f"factor_exh_{family}_pairs", n)
    return n


def start_factor(ctx):
    """Generates the factor cases and starts their TLC runs in the background."""
    rng = random.Random(ctx.seed * 2003 + 181)
    n = 1000 if ctx.tier == "quick" else 8000
    cases = make_factor_cases(rng, n)
    ctx.count("factor_programs_redrawn_because_of_the_32bit_overflow_guard", _DROPPED[0])
    chunks = [cases[k:k + 2000] for k in range(0, len(cases), 2000)]
    futs = [_POOL.submit(factor_batch_tlc, ctx, ch, str(i)) for i, ch in enumerate(chunks)]
    exh = {"small": _POOL.submit(factor_exh_tlc, ctx, "small")}
    if ctx.tier == "thorough":
        exh["large"] = _POOL.submit(factor_exh_tlc, ctx, "large")
    return chunks, futs, exh


def finish_factor(ctx, started):
    chunks, futs, exh = started
    for ch, f in zip(chunks, futs):
        run_factor_batch(ctx, ch, res=f.result())
    for family, f in exh.items():
        run_factor_exh(ctx, family, res=f.result())
    c = chunks[0][0]
    ctx.sample({"factor_case": {"tabs": c["tabs"][:2], "prog": [i["op"] for i in c["prog"]], "values": [repr(x) for x in VALUE_LABELS[c["lab"]]]}})


# ================================================================================================
def run(ctx):
    ctx.rule = ("game: (layout, reachable state, joint action) triples in which a physical constraint is active - a commanded "
                "target is off the grid / an obstacle / behind a wall / across a fence, both agents target the same cell or each "
                "other's cell, or the state is an own-goal state; factor: programs whose first product has a shared variable and "
                "either a zero row or more than one row pair, or mixtures with more than two rows in total")
    ctx.assumptions = [
        "TLC evaluates the TLA+ relation / reference machine / table operators correctly (cross-checked against independent "
        "Python statements: relation on every 7th trace, reference distribution on every 41st row, tables on every factor step)",
        "probabilities are logged in units of 1e-9 (tiny positive ones as 1 unit); a row sums to one iff |sum - 1e9| <= rows + 1 units",
        "layouts are rectangular, two agents, agents start on distinct free cells (or on a goal cell), goals have owners",
        "factor tables list each assignment once; mixtures are taken over equal variable sets",
    ]
    with warnings.catch_warnings():
        warnings.simplefilter("ignore")
        started = start_factor(ctx)          # TLC on the factor specs runs while the real game is being recorded
        run_game(ctx)
        finish_factor(ctx, started)


def replay(ctx, case):
    with warnings.catch_warnings():
        warnings.simplefilter("ignore")
        if case.get("kind") == "factor":
            c = case["case"]
            paths = {int(k): tuple(v) for k, v in case["paths"].items()}
            for ins in c["prog"]:
                ins.setdefault("e", 0)
            batch = [{"tabs": c["tabs"], "prog": c["prog"], "top": c["top"], "exps": c.get("exps") or [0] * len(c["tabs"])}]
            res = run_tlc(ctx.workdir / "factor_replay", "C18_Factor", FACTOR_CFG, files={"batch.json": batch},
                          env={"BATCH_FILE": "batch.json", "MODE": "batch", "EXH": "none", **JVM})
            ctx.add_tlc(res, "replay of one factor case")
            steps = {r["step"]: r for r in res.records}
            judge_factor_case(ctx, c, steps, paths, label="replay")
        else:
            rec = record_layout(ctx, case["lay"])
            if judge_game_errors(ctx, [rec]) == 0:
                game_pipeline(ctx, [rec])


def selftest(ctx):
    """Binding demonstration.  (B) corrupt one logged outcome of the real game, corrupt one logged probability and
    drop one recorded expansion; (A) perturb one expected table emitted by TLC and one table handed to msdm.
    Each must be detected."""
    ok = True
    rng = random.Random(3)
    with warnings.catch_warnings():
        warnings.simplefilter("ignore")
        lays = handmade_layouts()[:2] + [rand_layout(rng, 3, 2)]
        recs = [record_layout(ctx, lay) for lay in lays]
        # baseline: nothing reported
        base = len(ctx.violations)
        game_pipeline(ctx, recs)
        print(f"  baseline game: {len(ctx.violations) - base} failures (expected 0)")
        ok &= len(ctx.violations) == base
        # (B1) an outcome moved onto the other agent's cell
        import copy
        r2 = copy.deepcopy(recs)
        keys = {str(n) for n in r2[2]["states"]}
        st = next(n for n in r2[2]["states"] if n != T and n[0] != n[1] and str([n[1], n[0]]) in keys
                  and py_clauses(r2[2]["lay"], n, (0, 0), n) == set())
        row = r2[2]["events"][str(st)][7]
        row[0]["n"] = [st[1], st[0]]                   # the two agents have swapped cells
        base = len(ctx.violations)
        game_pipeline(ctx, r2)
        ok &= any("swap" in v[0] for v in ctx.violations[base:])
        # (B2) a probability off by 1e-6
        r3 = copy.deepcopy(recs)
        st = r3[0]["states"][0]
        r3[0]["events"][str(st)][3][0]["p"] += 1e-6
        base = len(ctx.violations)
        game_pipeline(ctx, r3)
        ok &= any(":sum:" in v[0] for v in ctx.violations[base:])
        # (B3) one recorded expansion dropped
        r4 = copy.deepcopy(recs)
        del r4[2]["events"][str(r4[2]["states"][-1])]
        base = len(ctx.violations)
        game_pipeline(ctx, r4)
        ok &= any("closure" in v[0] for v in ctx.violations[base:])
        # (A1) one expected table perturbed
        cases = make_factor_cases(random.Random(11), 40)
        cases = [c for c in cases if not any(i["op"] == "or" for i in c["prog"])] or cases
        base = len(ctx.violations)
        run_factor_batch(ctx, cases)
        print(f"  baseline factor (products only): {len(ctx.violations) - base} failures (expected 0)")
        ok &= len(ctx.violations) == base

        def corrupt(steps):
            for iid in sorted(steps):
                for si, rec in sorted(steps[iid].items()):
                    rows = rec["res"]["rows"]
                    if rec["note"]["op"] == "and" and len([r for r in rows if r["w"] > 0]) >= 2:
                        rows[0]["w"] += 1
                        rec["_selftest_corrupted"] = True      # (the oracle cross-check would notice it first)
                        return
        base = len(ctx.violations)
        run_factor_batch(ctx, cases, mutate_expect=corrupt)
        ok &= any("product" in v[0] for v in ctx.violations[base:])
        # (A2) a table handed to msdm perturbed (real run on a different input than the spec saw)
        real = [run_real_factor(c, PATHS) for c in cases]
        tgt = next(i for i, c in enumerate(cases) if len(c["tabs"][0]["rows"]) >= 2 and all(not isinstance(o, tuple) for o in real[i])
                   and len(real[i][2].support) >= 2)
        c2 = copy.deepcopy(cases[tgt])
        c2["tabs"][0]["rows"][0]["w"] += 5
        real[tgt] = run_real_factor(c2, PATHS)
        base = len(ctx.violations) + len(ctx.drifts)
        run_factor_batch(ctx, cases, real=real)
        ok &= len(ctx.violations) + len(ctx.drifts) > base
    return bool(ok)
