"""C08 - PBVI never over-estimates and QMDP never under-estimates the optimal POMDP value.

Pipeline (per chunk of cases = POMDP instance x representation x configurations):
  1. the real code runs first: point_based_value_iteration on belief sets chosen by the driver,
     PointBasedValueIteration(...).plan_on with several budgets / thresholds / horizons, QMDP with
     two MDP solvers; values, action values and action distributions at the evaluation beliefs; the
     belief-set expansions are re-recorded through the public expand_beliefs and made exact;
  2. one TLC run of spec/C08_Bounds.tla: exact oracle (Q*_MDP, blind policies, depth-d expectimax
     bracket Lo_d <= V* <= Hi_d per evaluation belief), the point-based backup machine on every belief
     set (exact alpha vectors, number of backups, stop reason; invariants NeverOver, ClosedExact, ...),
     trace validation of the recorded expansions and action distributions;
  3. the driver compares what the real code returned with what TLC emitted, clause by clause.
Only clauses of the statement raise VIOLATION; a mismatch with the reference machine alone is DRIFT.
"""
import copy
import gc
import math
import random
import traceback
import warnings
from fractions import Fraction as F
from math import gcd

import numpy as np

from .. import gen, pyoracle
from .. import pomdp_build as pb
from ..build import frac
from ..core import digest
from ..tlc import run_tlc, TLCFailure

CFG = """INIT Init
NEXT Next
CHECK_DEADLOCK FALSE
INVARIANT Emit
INVARIANT NeverOver
INVARIANT ClosedExact
INVARIANT BracketSane
INVARIANT QMDPUpper
INVARIANT FullObsTight
INVARIANT AlphaShape
INVARIANT HorizonRespected
INVARIANT Terminates
INVARIANT InstancesWellFormed
"""
DESIGN_INVS = ["NeverOver", "ClosedExact", "BracketSane", "QMDPUpper", "FullObsTight", "AlphaShape",
               "HorizonRespected", "Terminates", "InstancesWellFormed"]

# float results against exact rationals: direct algebra on <= 4 states / <= 8 exact backups of small
# dyadic numbers (DESIGN 5.1): a few ulp each -> 1e-9 relative leaves 6 orders of magnitude
TOL = 1e-9
LIM = 2 ** 30 - 1
HCAP = 8            # the spec's bound on horizons the exact machine follows (C08_Bounds!HCAP)

LABELS = ["int", "str", "tuple", "frozendict", "mixed"]
DISTS = ["dict", "dict_zeros", "det", "uniform"]
BREPS = ["belief", "dict", "dict_zeros", "list", "dict_perm", "dict_perm"]
# hand-made Belief tuples: states listed in another order than pomdp.state_list / support only
NONCANON = ["belief_perm", "belief_support"]
QBREPS = ["belief", "belief_perm", "belief_support", "belief_perm"]
# AlphaVectorPolicy._belief_to_vector reads the probabilities of a Belief tuple positionally (it ignores the
# `states` field, unlike QMDPPolicy and next_agentstate): such tuples are only probed and counted for the
# alpha-vector policy.  Set to True once msdm honours the field: they then join the judged representations.
ALPHAVECTOR_HONOURS_BELIEF_STATES = True
REUSE = [None, "rewards", "rewards", "observations", "discount", "rewards"]
RARE_EPS = 1e-9      # probability of the rare transitions of the rare-transition family


def tol(x):
    return TOL * max(1.0, abs(float(x)))


def err_of(e):
    """(exception name, message, innermost msdm function on the stack) - the call site named in the signature."""
    where = None
    for fr in traceback.extract_tb(e.__traceback__):
        if "/msdm/" in fr.filename:
            where = fr.name
    return (type(e).__name__, str(e)[:200], where)


def lcm(a, b):
    return a * b // gcd(a, b) if a and b else 0


def reduce_w(w):
    g = 0
    for x in w:
        g = gcd(g, x)
    return [x // g for x in w] if g else list(w)


def weights_of(fr):
    """Fractions -> canonical integer weights."""
    L = 1
    for x in fr:
        L = lcm(L, x.denominator)
    return reduce_w([int(x * L) for x in fr])


def normal(w):
    t = sum(w)
    return [F(x, t) for x in w]


# ---------------------------------------------------------------------------------------------
# independent exact semantics (Fractions; shares nothing with msdm or with the TLA+ text)
# ---------------------------------------------------------------------------------------------
def absall(m):
    out = set()
    for s in range(m["N"]):
        if m["abs"][s]:
            out.add(s)
        elif all(m["P"][s][a][s] == m["PD"] and m["R"][s][a][s] == 0 for a in range(m["K"])):
            out.add(s)
    return out


def rsa(m, s, a):
    return F(sum(m["P"][s][a][n] * m["R"][s][a][n] for n in range(m["N"])), m["PD"])


def leaf_tables(m):
    """(V*_MDP, Q*_MDP, blind values, lcm of all denominators) by the independent oracle."""
    N, K = m["N"], m["K"]
    V = pyoracle.optimal_value(m)
    na = [s for s in range(N) if not m["abs"][s]]
    bl = [pyoracle.policy_value(m, {s: {a: F(1 if a == a0 else 0) for a in range(K)} for s in na}) for a0 in range(K)]
    Q = [[F(0) if m["abs"][s] else pyoracle.q_from_v(m, V, s, a) for a in range(K)] for s in range(N)]
    L = 1
    for x in V:
        L = lcm(L, x.denominator)
    for row in bl:
        for x in row:
            L = lcm(L, x.denominator)
    return V, Q, bl, L


def post_masked(m, na, b, a, o):
    N = m["N"]
    return [sum(b[s] * m["P"][s][a][n] for s in na if b[s]) * F(m["O"][a][n][o], m["PD"] * m["OD"]) for n in range(N)]


def py_em(m, na, V, bl, b, d):
    """(lo, hi) of the homogeneous depth-d expectimax at the (unnormalised) Fraction vector b."""
    if not any(b[s] for s in na):
        return F(0), F(0)
    if d == 0:
        return (max(sum(b[s] * bl[a][s] for s in na) for a in range(m["K"])), sum(b[s] * V[s] for s in na))
    qs = [py_emq(m, na, V, bl, b, d, a) for a in range(m["K"])]
    return max(q[0] for q in qs), max(q[1] for q in qs)


def py_emq(m, na, V, bl, b, d, a):
    g = F(m["GN"], m["GD"])
    r = sum(b[s] * rsa(m, s, a) for s in na if b[s])
    lo = hi = F(0)
    for o in range(m["NO"]):
        l, h = py_em(m, na, V, bl, post_masked(m, na, b, a, o), d - 1)
        lo += l
        hi += h
    return r + g * lo, r + g * hi


def py_auto_h(m, eps):
    rs = [rsa(m, s, a) for s in range(m["N"]) for a in range(m["K"])]
    rng_ = max(rs) - min(rs)
    if rng_ == 0:
        return 0, False          # the threshold exceeds a zero reward range: no backup (the code divides by machine epsilon)
    g = F(m["GN"], m["GD"])
    h = 0
    while g ** h * rng_ > eps and h < 400:
        h += 1
    return h, (g ** h * rng_ == eps)


class E:
    """x0 + x1 * e for an infinitesimal e > 0 (first order, exact): the arithmetic of a model whose rare
    transitions have probability e.  Ordered lexicographically - what floating point does with e = 1e-9 as long
    as the zeroth-order gaps are not themselves tiny (callers check that with `edges`)."""
    __slots__ = ("x0", "x1")

    def __init__(self, x0, x1=0):
        self.x0, self.x1 = F(x0), F(x1)

    @staticmethod
    def of(x):
        return x if isinstance(x, E) else E(x)

    def __add__(self, o):
        o = E.of(o)
        return E(self.x0 + o.x0, self.x1 + o.x1)
    __radd__ = __add__

    def __neg__(self):
        return E(-self.x0, -self.x1)

    def __sub__(self, o):
        return self + (-E.of(o))

    def __rsub__(self, o):
        return E.of(o) - self

    def __mul__(self, o):
        o = E.of(o)
        return E(self.x0 * o.x0, self.x0 * o.x1 + self.x1 * o.x0)
    __rmul__ = __mul__

    def key(self):
        return (self.x0, self.x1)

    def __lt__(self, o):
        return self.key() < E.of(o).key()

    def __gt__(self, o):
        return self.key() > E.of(o).key()

    def __le__(self, o):
        return self.key() <= E.of(o).key()

    def __ge__(self, o):
        return self.key() >= E.of(o).key()

    def __eq__(self, o):
        return self.key() == E.of(o).key()

    def __hash__(self):
        return hash(self.key())

    def __abs__(self):
        return -self if self.key() < (0, 0) else self


def order0(x):
    return x.x0 if isinstance(x, E) else x


def py_pbvi(m, bs, eps, H, aord, edges=None, rare=False):
    """Independent re-implementation of the point-based backup loop in Fractions.
    bs: list of normalised Fraction beliefs in the code's order; aord: abstract actions in the code's order.
    rare: carry the transitions of m["rare"] with an infinitesimal probability (class E) - they decide the argmax
    wherever everything else is tied, exactly as the 1e-9 entries do in the real arrays.
    Returns (alphas, k, phase)."""
    N, K, NO = m["N"], m["K"], m["NO"]
    g = F(m["GN"], m["GD"])
    na = [s for s in range(N) if s not in absall(m)]
    if rare and m.get("rare"):
        # a state that leaves with probability 1e-9 does not self-loop with probability 1: it is not implicitly
        # absorbing in the real arrays even if the integer rows (without the rare entries) look like it
        na = sorted(set(na) | {s_ for s_, _a, _n in m["rare"] if not m["abs"][s_]})
    T = [[[F(m["P"][s][a][n], m["PD"]) if s in na else F(0) for n in range(N)] for a in range(K)] for s in range(N)]
    Ob = [[[F(m["O"][a][n][o], m["OD"]) for o in range(NO)] for n in range(N)] for a in range(K)]
    R = [[rsa(m, s, a) if s in na else F(0) for a in range(K)] for s in range(N)]
    if rare and m.get("rare"):
        cnt = {}
        for s_, a_, _n in m["rare"]:
            cnt[(s_, a_)] = cnt.get((s_, a_), 0) + 1
        for (s_, a_), r_ in cnt.items():
            if s_ in na:
                T[s_][a_] = [E(x, -x * r_) for x in T[s_][a_]]
        for s_, a_, n_ in m["rare"]:
            if s_ in na:
                T[s_][a_][n_] = T[s_][a_][n_] + E(0, 1)
        for (s_, a_) in cnt:
            if s_ in na:
                R[s_][a_] = sum(T[s_][a_][n] * m["R"][s_][a_][n] for n in range(N))
    nb = len(bs)
    bv = [[F(0)] * N for _ in range(nb)]
    if H <= 0:
        return bv, 0, "nohorizon"
    k = 0
    while True:
        new = []
        for b in range(nb):
            best, bestv = None, None
            for a in aord:
                vec = [R[s][a] for s in range(N)]
                for o in range(NO):
                    cand = [[sum(T[s][a][n] * Ob[a][n][o] * bv[p][n] for n in range(N)) for s in range(N)] for p in range(nb)]
                    sc = [sum(bs[b][s] * cand[p][s] for s in range(N)) for p in range(nb)]
                    p = sc.index(max(sc))
                    vec = [vec[s] + g * cand[p][s] for s in range(N)]
                v = sum(bs[b][s] * vec[s] for s in range(N))
                if bestv is None or v > bestv:
                    best, bestv = vec, v
            new.append(best)
        delta = max(abs(sum(bs[b][s] * (bv[b][s] - new[b][s]) for s in range(N))) for b in range(nb))
        if edges is not None and abs(order0(delta) - eps) < F(1, 10 ** 6):
            edges.append(delta)          # a stop test that a perturbation of 1e-9 could turn
        if delta < eps:
            return bv, k, "stopped"
        bv = new
        k += 1
        if k == H:
            return bv, k, "horizon"


# ---------------------------------------------------------------------------------------------
# case generation
# ---------------------------------------------------------------------------------------------
GAMMAS = [(1, 2)] * 6 + [(3, 4)] * 3 + [(1, 4), (9, 10)]
RFAMS = ["mixed", "mixed", "mixed", "nonneg", "nonpos", "const", "const"]
OBSK = ["random", "random", "random", "random", "identity", "identity", "permuted", "single", "uninformative"]


def prune(m, listed):
    """Instance restricted to the listed states (abstract order kept)."""
    ls = sorted(listed)
    K = m["K"]
    mp = {k: m[k] for k in ("K", "PD", "GN", "GD", "ID", "NO", "OD")}
    mp["N"] = len(ls)
    mp["abs"] = [m["abs"][s] for s in ls]
    mp["avail"] = [[1] * K for _ in ls]
    mp["P"] = [[[m["P"][s][a][t] for t in ls] for a in range(K)] for s in ls]
    mp["R"] = [[[m["R"][s][a][t] for t in ls] for a in range(K)] for s in ls]
    mp["p0"] = [m["p0"][s] for s in ls]
    mp["O"] = [[m["O"][a][n] for n in ls] for a in range(K)]
    pos = {s: i for i, s in enumerate(ls)}
    mp["rare"] = [[pos[s_], a_, pos[n_]] for s_, a_, n_ in m.get("rare", []) if s_ in pos and n_ in pos]
    return mp, ls


def choose_depth(mp, LD, bmax, tier):
    """Largest expectimax depth that keeps the homogeneous integers inside 30 bits and the tree small."""
    S = mp["PD"] * mp["OD"] * mp["GD"]
    g = F(mp["GN"], mp["GD"])
    rb = max([abs(rsa(mp, s, a)) for s in range(mp["N"]) for a in range(mp["K"])] + [F(1)])
    vb = int(math.ceil(rb / (1 - g))) + 1
    branch = mp["K"] * mp["NO"]
    budget = 260 if tier == "quick" else 1500
    d = 0
    while d < 7:
        nd = d + 1
        if 8 * bmax * vb * LD * mp["PD"] * S ** nd >= LIM:
            break
        if nd > 1 and branch ** nd > budget:
            break
        d = nd
    return d


def machine_fits(mp, bs, eps, H):
    """Conservative magnitude bound of the exact backup machine (alpha numerators over S^k)."""
    if H < 0:
        H, _ = py_auto_h(mp, eps)
    if H > HCAP or len(bs) > 10:
        return False
    S = mp["PD"] * mp["OD"] * mp["GD"]
    g = F(mp["GN"], mp["GD"])
    rb = max([abs(rsa(mp, s, a)) for s in range(mp["N"]) for a in range(mp["K"])] + [F(1)])
    vb = int(math.ceil(rb / (1 - g))) + 1
    bmax = max(sum(w) for w in bs)
    return 4 * bmax * vb * mp["PD"] * mp["OD"] * S ** max(H, 1) * S * max(eps.denominator, eps.numerator) < LIM


def make_near(rng):
    """Near-belief family: revealing observations, an initial belief with mass 1/2048 on a state B where the action
    that is best in the likely state A is catastrophic, and a cycle A -> C -> A after which the agent KNOWS it is
    in A.  The vertex of A is a reachable belief at Euclidean distance sqrt(2)/2048 < 1e-3 from the initial belief
    with another optimal action.  All numbers are dyadic (floating point is exact); the rewards are large, so the
    exact backup machine does not run on these (the integer oracle at depth 1 does: it is exact here)."""
    GN, GD = 1, 2          # (with the dyadic thresholds below the spec's horizon formula stays inside 32 bits)
    perm = [0, 1, 2]
    rng.shuffle(perm)
    A, Bs, C = perm
    x, y = rng.choice([(0, 1), (1, 0)])
    gain, cpen = rng.choice([1, 2]), rng.choice([0, -1])
    # catastrophe large enough that 1/2048 of it outweighs what the good action gains in A: gain (1 + gamma)
    M = 4096
    while F(M, 2048) <= F(5, 4) * gain * (1 + F(GN, GD)):
        M *= 2
    M *= rng.choice([1, 2])
    N, K, PD, OD = 3, 2, 2, 2
    P = [[[0] * N for _ in range(K)] for _ in range(N)]
    R = [[[0] * N for _ in range(K)] for _ in range(N)]
    for s_, a_, t_, r_ in ((A, x, A, gain), (A, y, C, 0), (Bs, x, Bs, -M), (Bs, y, C, 0), (C, x, C, cpen), (C, y, A, 0)):
        P[s_][a_][t_] = PD
        R[s_][a_] = [r_] * N
    p0 = [0] * N
    p0[A], p0[Bs] = 2047, 1
    O = [[[OD if o == n else 0 for o in range(N)] for n in range(N)] for _ in range(K)]
    obs = rng.choice(["identity", "permuted"])
    if obs == "permuted":
        for a_ in range(K):
            pm = list(range(N))
            rng.shuffle(pm)
            O[a_] = [[row[pm[o]] for o in range(N)] for row in O[a_]]
    m = {"N": N, "K": K, "PD": PD, "GN": GN, "GD": GD, "ID": 2048, "abs": [0] * N, "avail": [[1] * K for _ in range(N)],
         "P": P, "R": R, "p0": p0, "NO": N, "OD": OD, "O": O, "ghost": 0, "obs_kind": obs, "rfam": "mixed", "near": 1}
    # the two beliefs must really ask for different actions
    _, Q, _, _ = leaf_tables(m)
    b0 = [F(w, 2048) for w in p0]
    at_b0 = [sum(b0[s_] * Q[s_][a_] for s_ in range(N)) for a_ in range(K)]
    if not (at_b0[y] > at_b0[x] and Q[A][x] > Q[A][y]):
        raise AssertionError("near-belief family: construction does not separate the two beliefs")
    return m


def make_late(rng):
    """Late-belief family (revealing observations, dyadic): a cycle s0 -> s1 -> s2 -> s0 from which s2 slips into s3
    with probability 1e-9 (rare transitions, see make_rare).  Action `a` is the routine one; in s2 action `b` is better
    by less than the threshold; in s3 `b` pays half of what `c` pays for ever.  With a small expansion budget the
    vertex of s3 enters the belief set last, and two successive solutions agree on the older beliefs although they
    differ at it: the expansion / convergence loop has to look at the EXPANDED set to go on."""
    sc = rng.choice([8, 16])
    perm = [0, 1, 2, 3]
    rng.shuffle(perm)
    s0, s1, s2, s3 = perm
    acts = [0, 1, 2]
    rng.shuffle(acts)
    a, b, c = acts
    N, K, PD, OD = 4, 3, 2, 2
    P = [[[0] * N for _ in range(K)] for _ in range(N)]
    R = [[[0] * N for _ in range(K)] for _ in range(N)]
    for x in range(K):
        P[s0][x][s1] = P[s1][x][s2] = P[s2][x][s0] = P[s3][x][s3] = PD
    for st in (s0, s1, s2):
        R[st][a] = [sc] * N
    R[s2][b] = [sc + sc // 8] * N
    R[s3][b] = [5 * sc] * N
    R[s3][c] = [10 * sc] * N
    p0 = [0] * N
    p0[s0] = 2
    O = [[[OD if o == n else 0 for o in range(N)] for n in range(N)] for _ in range(K)]
    obs = rng.choice(["identity", "permuted"])
    if obs == "permuted":
        for x in range(K):
            pm = list(range(N))
            rng.shuffle(pm)
            O[x] = [[row[pm[o]] for o in range(N)] for row in O[x]]
    return {"N": N, "K": K, "PD": PD, "GN": 1, "GD": 2, "ID": 2, "abs": [0] * N, "avail": [[1] * K for _ in range(N)],
            "P": P, "R": R, "p0": p0, "NO": N, "OD": OD, "O": O, "ghost": 0, "obs_kind": obs, "rfam": "mixed",
            "rare": [[s2, x, s3] for x in range(K)], "late": sc}


def make_case(rng, k, tier):
    while True:
        if k % 16 == 13:
            m = make_late(rng)
            rep = dict(labels=rng.choice(LABELS), alabels=rng.choice(LABELS), olabels=rng.choice(LABELS),
                       explicit_list=True, dist="dict", odist=rng.choice(DISTS), outside=None)
            mp, ls = prune(m, pb.listed_states(m, True))
            break
        if k % 16 == 9:
            m = make_near(rng)
            rep = dict(labels=rng.choice(LABELS), alabels=rng.choice(LABELS), olabels=rng.choice(LABELS),
                       explicit_list=rng.random() < 0.5, dist=rng.choice(DISTS), odist=rng.choice(DISTS), outside=None)
            mp, ls = prune(m, pb.listed_states(m, rep["explicit_list"]))
            break
        GN, GD = GAMMAS[rng.randrange(len(GAMMAS))]
        rfam = RFAMS[(k + rng.randrange(2)) % len(RFAMS)]
        obs = OBSK[(k // 2 + rng.randrange(2)) % len(OBSK)]
        PD = rng.choice([2, 2, 2, 2, 4, 3])
        OD = rng.choice([2, 2, 2, 4, 3])
        n_na = rng.choice([1, 2, 2, 3, 3])
        n_abs = rng.choice([0, 0, 1, 1, 2])
        if rfam == "const" and rng.random() < 0.7:
            n_abs = 0
        if n_na + n_abs < 2:
            n_na = 2
        if n_na + n_abs > 4:
            n_abs = 4 - n_na
        K = rng.choice([1, 2, 2, 3])
        NO = rng.choice([1, 2, 2, 3])
        if (GN, GD) == (9, 10):
            n_na, PD, OD = min(n_na, 2), 2, 2
        rare = k % 8 == 5
        if rare:       # rare-transition family: tiny, dyadic, fully revealing, one state reached with probability 1e-9 only
            GN, GD = rng.choice([(1, 2), (3, 4)])
            PD = OD = 2
            n_na, n_abs, K = rng.choice([2, 3, 3]), rng.choice([0, 0, 1]), rng.choice([2, 2, 3])
            rfam, obs = "mixed", rng.choice(["identity", "permuted"])
        if rfam == "mixed":
            rewards = (-2, -1, 0, 1, 2)
        elif rfam == "nonneg":
            rewards = (0, 1, 2)
        elif rfam == "nonpos":
            rewards = (-2, -1, 0)
        else:
            rewards = (rng.choice([-2, -1, 1, 2]),)
        ghost = n_abs > 0 and rng.random() < 0.4
        m = pb.rand_pomdp(rng, n_na=n_na, n_abs=n_abs, K=K, NO=NO, PD=PD, OD=OD, GN=GN, GD=GD, rewards=rewards,
                          ghost=ghost, ID=rng.choice([2, 4]), obs_kind=("identity" if obs == "permuted" else obs),
                          init_on_abs=0.15)
        if obs == "permuted":          # still fully revealing, but the observation names depend on the action
            for a in range(K):
                perm = list(range(m["NO"]))
                rng.shuffle(perm)
                m["O"][a] = [[row[perm[o]] for o in range(m["NO"])] for row in m["O"][a]]
        m["obs_kind"], m["rfam"] = obs, rfam
        rep = dict(labels=rng.choice(LABELS), alabels=rng.choice(LABELS), olabels=rng.choice(LABELS),
                   explicit_list=rng.random() < 0.5, dist=rng.choice(DISTS), odist=rng.choice(DISTS), outside=None)
        if rare:
            if not make_rare(rng, m):
                continue
            rep.update(explicit_list=True, dist="dict")
        if not rep["explicit_list"] and not gen.ghost_closed(m):
            rep["explicit_list"] = True     # ghost successors outside the inferred list: C06's business
        listed = pb.listed_states(m, rep["explicit_list"])
        mp, ls = prune(m, listed)
        if len([s for s in range(mp["N"]) if not mp["abs"][s]]) > 3:
            continue
        if not gen.magnitude_ok(mp):
            continue
        _, _, _, LD = leaf_tables(mp)
        if choose_depth(mp, LD, 64, tier) < 1:
            continue
        break
    case = {"m": m, "rep": rep, "k": k}
    N = mp["N"]
    # ---- evaluation beliefs (pruned coordinates, integer weights)
    bel = [reduce_w(list(mp["p0"]))]

    def add(w):
        w = reduce_w(w)
        if sum(w) > 0 and w not in bel:
            bel.append(w)
    nas = [s for s in range(N) if not mp["abs"][s]]
    abss = [s for s in range(N) if mp["abs"][s]]
    if nas:
        add(_vertex(N, rng.choice(nas)))
    if abss:
        add(_vertex(N, rng.choice(abss)))
    for _s, _a, n_ in mp["rare"]:
        add(_vertex(N, n_))
    if m.get("near"):
        for s_ in range(N):
            add(_vertex(N, s_))
    add([rng.randint(1, 3) for _ in range(N)])
    z = [rng.randint(1, 3) for _ in range(N)]
    z[rng.randrange(N)] = 0
    add(z)
    # beliefs reached by the (literal) filter from the initial belief
    for _ in range(2):
        w = list(bel[0])
        for _step in range(rng.randint(1, 3)):
            succ = exact_succs(mp, w)
            if not succ:
                break
            w = list(rng.choice(sorted(succ)))
        if sum(w) <= 64:
            add(w)
    case["beliefs"] = bel
    # ---- direct calls of point_based_value_iteration on belief sets chosen here
    verts = [_vertex(N, s) for s in range(N)]
    s1 = []
    sets = [list(bel[:4]), [bel[0]] + [v for v in verts if v != bel[0]], [bel[0]]]
    rng.shuffle(sets[0])
    style = k % 6
    for j, bs in enumerate(sets[:2 if tier == "quick" else 3]):
        if style == 0 and j == 0:
            eps, H = F(1, 10), -1                      # automatic horizon
        elif style == 1 and j == 0:
            eps, H = rng.choice([F(1, 2), F(1, 4)]), rng.choice([6, 7, 8])     # stops by the threshold, dyadic edge
        elif style == 2 and j == 0:
            eps, H = F(1, 100), rng.choice([1, 2, 3])  # runs to the horizon
        elif style == 3 and j == 0 and k % 12 == 3:
            eps, H = F(1, 10), 0                       # no backup at all
        elif style == 4 and j == 0 and k % 12 == 4:
            eps, H = F(2, 1), -1                       # threshold above the reward range: automatic horizon <= 0
        else:
            eps, H = rng.choice([F(1, 10), F(1, 100), F(1, 4), F(1, 8)]), rng.choice([-1, 1, 2, 3, 4, 5, 5, 20])
        if m.get("near") and H < 0:
            eps = F(1, 128)
        while H < 0 and py_auto_h(mp, eps)[1]:
            eps = eps * F(19, 20)                      # avoid the rounding-dependent exact power
        s1.append({"bs": bs, "eps": [eps.numerator, eps.denominator], "H": H})
    case["s1"] = s1
    # ---- configurations of the planner class
    cfgs = []
    menu = [dict(min_belief_expansions=0, max_belief_expansions=10, value_convergence_epsilon=[1, 10], horizon=-1),
            dict(min_belief_expansions=1, max_belief_expansions=10, value_convergence_epsilon=[1, 100], horizon=5),
            dict(min_belief_expansions=5, max_belief_expansions=8, value_convergence_epsilon=[1, 100], horizon=20),
            dict(min_belief_expansions=0, max_belief_expansions=1, value_convergence_epsilon=[1, 4], horizon=3),
            dict(min_belief_expansions=100, max_belief_expansions=3, value_convergence_epsilon=[1, 10], horizon=4),
            dict(min_belief_expansions=1, max_belief_expansions=100000, value_convergence_epsilon=[1, 2], horizon=-1),
            dict(min_belief_expansions=2, max_belief_expansions=6, value_convergence_epsilon=[1, 100], horizon=-1),
            dict(min_belief_expansions=5, max_belief_expansions=6, value_convergence_epsilon=[1, 8], horizon=2)]
    pick = [menu[k % len(menu)], menu[(k * 3 + 1) % len(menu)]]
    if m.get("late"):       # the smallest budget; threshold above the advantage of `b` in s2, below everything else
        e = [3 * m["late"], 16]
        pick = [dict(min_belief_expansions=0, max_belief_expansions=10, value_convergence_epsilon=e, horizon=-1),
                dict(min_belief_expansions=0, max_belief_expansions=12, value_convergence_epsilon=e, horizon=rng.choice([6, 8]))]
    if m.get("near"):       # budgets under which the farthest-successor rule closes the belief set (4 members)
        pick = [dict(min_belief_expansions=5, max_belief_expansions=8, value_convergence_epsilon=[1, 100], horizon=20),
                dict(min_belief_expansions=10, max_belief_expansions=50, value_convergence_epsilon=[1, 128], horizon=-1)]
    if tier != "quick":
        pick.append(menu[(k * 5 + 2) % len(menu)])
    for c in pick:
        c = dict(c)
        e = F(*c["value_convergence_epsilon"])
        while c["horizon"] < 0 and py_auto_h(mp, e)[1]:
            e = e * F(19, 20)
            c["value_convergence_epsilon"] = [e.numerator, e.denominator]
        if c not in cfgs:
            cfgs.append(c)
    case["cfgs"] = cfgs
    case["solver"] = "vi" if k % 4 == 3 else "pi"
    case["brep"] = [rng.choice(BREPS + (NONCANON if ALPHAVECTOR_HONOURS_BELIEF_STATES else [])) for _ in bel]
    case["qbrep"] = [rng.choice(QBREPS) for _ in bel]
    # planner-reuse history: the SAME planner object first plans a variant of the POMDP that differs only in
    # the named component, then the POMDP of the case; the second result is judged like a fresh planner's
    case["reuse"] = REUSE[k % len(REUSE)]
    # input representation of the absorbing flags: Python bools, plain ints 0/1, numpy integers
    case["absflag"] = ["bool", "int", "npint"][k % 3]
    # short-lived model objects: the first planner configuration runs on a model object created right after
    # another model of the same shape (other dynamics, same initial belief) was planned, dropped and collected
    case["shortlived"] = k % 2 == 1
    return case


def make_rare(rng, m):
    """Turn a fully revealing instance into a member of the rare-transition family: state n is reached only
    through transitions of probability RARE_EPS (listed in m["rare"], left out of the integer rows P), and a
    different action is best there.  The instance keeps small dyadic numbers: values computed without the rare
    transitions differ from the real ones by at most rare_tol(m)."""
    N, K, PD = m["N"], m["K"], m["PD"]
    reach = gen.reach(m)
    cand = [s for s in range(N) if not m["abs"][s] and m["p0"][s] == 0]
    src = [s for s in reach if not m["abs"][s]]
    rng.shuffle(cand)
    for n in cand:
        srcs = [s for s in src if s != n]
        if not srcs:
            continue
        others = [t for t in range(N) if t != n]
        for s in others:
            for a in range(K):
                x = m["P"][s][a][n]
                if x:
                    m["P"][s][a][n] = 0
                    m["P"][s][a][rng.choice(others)] += x
        best = rng.randrange(K)
        for a in range(K):
            m["R"][n][a] = [2 if a == best else -2] * N
        reach2 = gen.reach(m)
        srcs = [s for s in reach2 if not m["abs"][s] and s != n]
        if not srcs or n in reach2:
            return False
        m["rare"] = []
        for _ in range(rng.choice([1, 1, 2])):
            t = [rng.choice(srcs), rng.randrange(K), n]
            if t not in m["rare"]:
                m["rare"].append(t)
        return True
    return False


def rare_tol(mp):
    """Perturbation bound for leaving the rare transitions out of the numbers: per (state, action) the kernel
    moves by at most 2 r eps in total variation (r rare entries), the expected reward by at most that times
    max|R|; every policy's discounted value (k-step or infinite, any information structure) then moves by at
    most  delta * Rabs * (1 + gamma / (1 - gamma)) / (1 - gamma) = delta * Rabs / (1 - gamma)^2."""
    if not mp.get("rare"):
        return 0.0
    per = {}
    for s_, a_, _n in mp["rare"]:
        per[(s_, a_)] = per.get((s_, a_), 0) + 1
    delta = 2 * RARE_EPS * max(per.values())
    rabs = max(abs(x) for sa in mp["R"] for row in sa for x in row)
    g = mp["GN"] / mp["GD"]
    return delta * rabs / (1 - g) ** 2 * 1.01


def _vertex(N, s):
    return [1 if t == s else 0 for t in range(N)]


def exact_succs(mp, w):
    """Successor beliefs under the literal Bayes filter (declared rows of absorbing states included)."""
    out = set()
    N = mp["N"]
    for a in range(mp["K"]):
        for o in range(mp["NO"]):
            post = [sum(w[s] * mp["P"][s][a][n] for s in range(N)) * mp["O"][a][n][o] for n in range(N)]
            if sum(post) > 0:
                out.add(tuple(reduce_w(post)))
    for s_, a_, n_ in mp.get("rare", []):       # revealing observations: a rare step leads to the vertex of n
        if w[s_] > 0:
            out.add(tuple(_vertex(N, n_)))
    return out


def make_cases(rng, n, tier, start=0):
    return [make_case(rng, start + i, tier) for i in range(n)]


# ---------------------------------------------------------------------------------------------
# phase 1: the real code
# ---------------------------------------------------------------------------------------------
class Real:
    """Everything observed from msdm for one case (plain data, abstract pruned coordinates)."""

    def __init__(self, ctx, case, tamper=None):
        self.ctx, self.case, self.tamper = ctx, case, tamper
        self.errors = []          # (site, clause, shape, what)
        self.ok = False
        self.s1 = []              # per direct call
        self.s2 = []              # per planner configuration
        self.jobs = []            # TLC jobs: dict(bs, EN, ED, H, exact) + bookkeeping
        self.expands = []
        self.greedy = []          # TLC records
        self.greedy_meta = []
        self.qmdp = None

    def call(self, site, fn, *args, **kw):
        self.ctx.evaluations += 1
        out = fn(*args, **kw)
        if self.tamper is not None:
            out = self.tamper(site, out)
        return out

    # ------------------------------------------------------------------ set-up
    def setup(self):
        case = self.case
        m, rep = case["m"], case["rep"]
        rng = random.Random(digest([case["m"], case["rep"]]))
        mb = case.get("m_build", m)          # selftest: a different instance is handed to msdm
        B = self.B = pb.build_pomdp(mb, rng=rng, **rep)
        p = B.pomdp
        if m.get("rare"):
            p = B.pomdp = self.with_rare_transitions(B, m["rare"])
        if case.get("absflag", "bool") != "bool":
            p = B.pomdp = self.with_absorbing_flags(p, case["absflag"])
        self.p = p
        listed = pb.listed_states(m, rep["explicit_list"])
        self.mp, self.ls = prune(m, listed)
        self.pidx = {s: i for i, s in enumerate(self.ls)}
        self.shape = shape_of(m)
        try:
            self.sl = list(p.state_list)
            self.al = list(p.action_list)
            p.transition_matrix, p.observation_matrix, p.state_action_reward_matrix, p.absorbing_state_vec
        except Exception as e:                               # noqa: BLE001
            # building the arrays is C06's / C07's clause; nothing here can be evaluated
            self.ctx.skip(f"array builders raised {type(e).__name__} (C06/C07's clause)")
            return False
        if set(self.sl) != {B.slabel[s] for s in B.listed} or set(self.al) != set(B.alabel):
            self.ctx.skip("state/action list differs from the reachable set (C06's clause)")
            return False
        self.spos = [self.pidx[B.sidx(lab)] for lab in self.sl]      # position in state_list -> pruned state
        self.apos = [B.aidx(lab) for lab in self.al]                 # position in action_list -> abstract action
        self.aord = [a + 1 for a in self.apos]
        self.ok = True
        return True

    def probe_state_dependent_actions(self):
        """Outside the statement (a POMDP's agent cannot know which actions its hidden state offers; PBVI treats an
        action that is not offered as 'reward 0, episode over', QMDP gives it -inf): only the implementation-shaped
        fact that the observation tensor PBVI plans with lists observation_dist(a, ns) for EVERY action of the
        action list is probed on a copy of the model with state-dependent action sets.  A mismatch is DRIFT."""
        self.probe_drift = None
        if self.case.get("k", 0) % 8 != 3 or len(self.al) < 2:
            return
        rnd = random.Random(digest([self.case["m"], "sdact"]))
        offered = {}
        for i, lab in enumerate(self.sl):
            keep = [a for a in self.al if rnd.random() < 0.5] or [rnd.choice(self.al)]
            offered[i] = tuple(keep)
        base = type(self.p)
        sl = self.sl

        class _SD(base):
            def actions(self, s):
                for i, lab in enumerate(sl):
                    if type(lab) is type(s) and lab == s:
                        return offered[i]
                return ()
        try:
            q = _SD()
            q._state_list, q._action_list = tuple(self.sl), tuple(self.al)
            om = np.asarray(q.observation_matrix)
            ol = list(q.observation_list)
            for ai, a in enumerate(self.al):
                for ni, ns in enumerate(self.sl):
                    d = q.observation_dist(a, ns)
                    exp = [float(d.prob(o)) for o in ol]
                    if max(abs(om[ai, ni, oi] - exp[oi]) for oi in range(len(ol))) > 1e-12:
                        self.probe_drift = {"action": repr(a), "next_state": repr(ns), "matrix_row": [float(x) for x in om[ai, ni]],
                                            "observation_dist": exp, "offered_in_next_state": [repr(x) for x in offered[ni]]}
                        return
            self.ctx.count("observation_tensor_probes_with_state_dependent_action_sets")
        except Exception as e:                               # noqa: BLE001
            self.ctx.count(f"observation_tensor_probe_raised_{type(e).__name__}")

    def warmup(self, planner, site):
        """Planner-reuse history: let the planner object plan the variant POMDP first (result discarded)."""
        kind = self.case.get("reuse")
        if not kind:
            return
        if not hasattr(self, "_variant"):
            self._variant = None
            case = self.case
            mv = copy.deepcopy(case.get("m_build", case["m"]))
            N = mv["N"]
            if kind == "rewards" and case.get("k", 0) % 6 == 2:
                # constant rewards: the automatic horizon of the variant is 0 backups - as far as possible from
                # what the case's own model needs (a planner must not carry anything over)
                mv["R"] = [[[1 for _x in row] for row in sa] for sa in mv["R"]]
            elif kind == "rewards":
                mv["R"] = [[[-x + (s_ + a_) % 2 for x in row] for a_, row in enumerate(sa)] for s_, sa in enumerate(mv["R"])]
            elif kind == "observations":
                # as different in information as possible: blind where the case reveals the state, as revealing
                # as the observation alphabet allows otherwise (a stale result is then visibly too low / too high)
                NO, OD = mv["NO"], mv["OD"]
                if mv.get("obs_kind") in ("identity", "permuted"):
                    mv["O"] = [[[OD if o == 0 else 0 for o in range(NO)] for _n in range(N)] for _a in range(mv["K"])]
                else:
                    mv["O"] = [[[OD if o == (n + a_) % NO else 0 for o in range(NO)] for n in range(N)] for a_ in range(mv["K"])]
            else:
                mv["GN"], mv["GD"] = (3, 4) if (mv["GN"], mv["GD"]) == (1, 2) else (1, 2)
            try:
                Bv = pb.build_pomdp(mv, rng=random.Random(digest([case["m"], case["rep"]])), **case["rep"])
                self._variant = self.with_rare_transitions(Bv, mv["rare"]) if mv.get("rare") else Bv.pomdp
            except Exception:                                # noqa: BLE001
                self.ctx.skip("variant POMDP of a planner-reuse history could not be built")
        if self._variant is None:
            return
        self.ctx.evaluations += 1
        try:
            with warnings.catch_warnings():
                warnings.simplefilter("ignore")
                planner.plan_on(self._variant)
            self.ctx.count(f"planner_reuse_histories[{site} after a variant with other {kind}]")
        except Exception:                                    # noqa: BLE001
            self.ctx.count("planner_reuse_warmups_that_raised")

    @staticmethod
    def clone(p):
        """A new model object of the same class (the classes built here take no constructor arguments)."""
        q = type(p)()
        for attr in ("_state_list", "_action_list"):
            if attr in p.__dict__:
                setattr(q, attr, p.__dict__[attr])
        return q

    @staticmethod
    def with_absorbing_flags(p, flag):
        """The same POMDP whose is_absorbing() answers with 0/1 integers (as read from a flag table)."""
        base = type(p)
        conv = int if flag == "int" else np.int64

        class _Flags(base):
            def is_absorbing(self, s):
                return conv(base.is_absorbing(self, s))
        q = _Flags()
        for attr in ("_state_list", "_action_list"):
            if attr in p.__dict__:
                setattr(q, attr, p.__dict__[attr])
        return q

    def short_lived_model(self):
        """Call history with short-lived model objects: a model of the same shape but other dynamics (same initial
        belief) is planned by a throw-away planner, dropped and garbage collected; the object returned is created
        right afterwards (CPython then usually hands out the same address: counted).  It is the POMDP of the case."""
        from msdm.algorithms.pointbasedvalueiteration import PointBasedValueIteration
        case = self.case
        mv = copy.deepcopy(case.get("m_build", case["m"]))
        N = mv["N"]
        mv["P"] = [[[row[(t + 1) % N] for t in range(N)] for row in sa] for sa in mv["P"]]
        mv["R"] = [[[row[(t + 1) % N] for t in range(N)] for row in sa] for sa in mv["R"]]
        try:
            Bv = pb.build_pomdp(mv, rng=random.Random(digest([case["m"], case["rep"]])), **case["rep"])
            pv = self.with_rare_transitions(Bv, mv["rare"]) if mv.get("rare") else Bv.pomdp
            qa = self.clone(pv)
            self.ctx.evaluations += 1
            with warnings.catch_warnings():
                warnings.simplefilter("ignore")
                PointBasedValueIteration(min_belief_expansions=4, max_belief_expansions=6,
                                         value_convergence_epsilon=0.01, horizon=3).plan_on(qa)
            addr = id(qa)
            del qa
        except Exception:                                    # noqa: BLE001
            addr = None
            self.ctx.count("short_lived_predecessors_that_raised")
        gc.collect()
        # CPython hands the freed block to one of the next allocations of that size: create model objects until
        # one gets it (the others are dropped afterwards); without a match the history is still a valid one
        spare, q = [], None
        for _ in range(400):
            q = self.clone(self.p)
            if addr is None or id(q) == addr:
                break
            spare.append(q)
        self.ctx.count("short_lived_model_histories" + ("[address reused]" if id(q) == addr else "[other address]"))
        return q

    @staticmethod
    def with_rare_transitions(B, rare):
        """The same POMDP with the transitions (s, a, n) of `rare` given probability RARE_EPS (taken
        proportionally from the other successors)."""
        from msdm.core.distributions import DictDistribution
        base = type(B.pomdp)
        extra = {}
        for s_, a_, n_ in rare:
            extra.setdefault((B.slabel[s_], B.alabel[a_]), []).append(B.slabel[n_])

        def lookup(s, a):
            return extra.get((s, a))

        class _Rare(base):
            def next_state_dist(self, s, a):
                d = base.next_state_dist(self, s, a)
                ns = lookup(s, a)
                if not ns:
                    return d
                items = [(e, pr * (1 - RARE_EPS * len(ns))) for e, pr in d.items() if pr > 0]
                return DictDistribution(dict(items + [(n, RARE_EPS) for n in ns]))
        q = _Rare()
        for attr in ("_state_list", "_action_list"):
            if attr in B.pomdp.__dict__:
                setattr(q, attr, B.pomdp.__dict__[attr])
        return q

    # ------------------------------------------------------------------ coordinate changes
    def vec_code(self, w):
        t = sum(w)
        return np.array([w[self.spos[i]] / t for i in range(len(self.sl))], dtype=float)

    def row_abstract(self, row):
        out = [0.0] * len(self.ls)
        for i, x in enumerate(row):
            out[self.spos[i]] = float(x)
        return out

    def belief_obj(self, w, kind):
        from msdm.core.pomdp.tabularpomdp import Belief
        from msdm.core.distributions import DictDistribution
        v = self.vec_code(w)
        if kind == "belief":
            return Belief(tuple(self.sl), tuple(float(x) for x in v))
        if kind in ("belief_perm", "belief_support", "dict_perm"):
            perm = list(range(len(self.sl)))
            random.Random(digest([list(w), kind])).shuffle(perm)
            if perm == sorted(perm) and len(perm) > 1:
                perm = perm[1:] + perm[:1]
            if kind == "belief_support":
                perm = [i for i in perm if v[i] > 0]
            if kind == "dict_perm":          # every listed state, zeros included, inserted in another order
                return DictDistribution({self.sl[i]: float(v[i]) for i in perm})
            return Belief(tuple(self.sl[i] for i in perm), tuple(float(v[i]) for i in perm))
        if kind == "dict":
            return DictDistribution({s: float(x) for s, x in zip(self.sl, v) if x > 0})
        if kind == "dict_zeros":
            return DictDistribution({s: float(x) for s, x in zip(self.sl, v)})
        return [float(x) for x in v]

    # ------------------------------------------------------------------ direct calls
    def run_s1(self):
        from msdm.algorithms.pointbasedvalueiteration import point_based_value_iteration
        for j, job in enumerate(self.case["s1"]):
            eps = F(*job["eps"])
            H = job["H"]
            bb = np.array([self.vec_code(w) for w in job["bs"]])
            rec = {"kind": "s1", "idx": j, "bs": job["bs"], "eps": eps, "H": H, "site": "point_based_value_iteration"}
            try:
                r = self.call("point_based_value_iteration", point_based_value_iteration, self.p, bb,
                              value_convergence_epsilon=float(eps), horizon=(None if H < 0 else H))
                rec.update(self.project_pbvi(r, bb, eps, H))
            except Exception as e:                           # noqa: BLE001
                rec["error"] = err_of(e)
            rec["job"] = self.add_job(job["bs"], eps, H)
            self.s1.append(rec)

    def project_pbvi(self, r, bb, eps, H):
        """alpha vectors in pruned coordinates, number of assignments, chosen actions.

        The loop breaks BEFORE assigning, so after `its` = i the vectors went through i assignments when it
        broke and through i + 1 when it ran to the horizon.  `iterations` alone cannot tell the two apart at
        i = horizon - 1; there the returned vectors are compared with the last computed ones (equal also at
        an exact fixed point, where both readings describe the same vectors: k_alt)."""
        alpha = np.asarray(r["alpha_vectors"], dtype=float)
        its = int(r["iterations"])
        bsa = np.asarray(r["belief_action_alpha_vectors"], dtype=float)
        idx = np.asarray(r["belief_action_indices"])
        newbv = bsa[np.arange(len(bb)), :, idx]
        same = bool(alpha.shape == newbv.shape and np.array_equal(alpha, newbv))
        h = H if H >= 0 else py_auto_h(self.mp, eps)[0]
        last = its == h - 1
        ran_out = last and same
        return {"alpha": [self.row_abstract(row) for row in alpha], "its": its, "k": its + 1 if ran_out else its,
                "k_alt": its if (ran_out and same) else (its + 1 if same else None),
                "ran_out": ran_out, "acts": [self.apos[int(i)] for i in idx]}

    def add_job(self, bs, eps, H):
        exact = 1 if machine_fits(self.mp, bs, eps, H) else 0
        self.jobs.append({"bs": [list(w) for w in bs], "EN": eps.numerator, "ED": eps.denominator, "H": H, "exact": exact})
        return len(self.jobs)          # 1-based index in the TLC batch

    # ------------------------------------------------------------------ the planner class
    def run_s2(self):
        from msdm.algorithms.pointbasedvalueiteration import PointBasedValueIteration
        for j, cfg in enumerate(self.case["cfgs"]):
            eps = F(*cfg["value_convergence_epsilon"])
            H = cfg["horizon"]
            rec = {"kind": "s2", "idx": j, "cfg": cfg, "eps": eps, "H": H, "site": "PointBasedValueIteration.plan_on"}
            try:
                planner = PointBasedValueIteration(min_belief_expansions=cfg["min_belief_expansions"],
                                                   max_belief_expansions=cfg["max_belief_expansions"],
                                                   value_convergence_epsilon=float(eps), horizon=(None if H < 0 else H))
                self.warmup(planner, "PointBasedValueIteration")
                target = self.short_lived_model() if (j == 0 and self.case.get("shortlived")) else self.p
                res = self.call("PointBasedValueIteration.plan_on", planner.plan_on, target)
            except Exception as e:                           # noqa: BLE001
                rec["error"] = err_of(e)
                self.s2.append(rec)
                continue
            rec["n_alpha"] = len(res.alpha_vectors)
            rec["n_beliefs"] = len(res.belief_set)
            rec["alpha"] = [self.row_abstract(row) for row in np.asarray(res.alpha_vectors, dtype=float)]
            self.reconstruct(rec, cfg, res, eps, H)
            self.observe_policy(rec, res.policy, "pbvi")
            self.s2.append(rec)

    def reconstruct(self, rec, cfg, res, eps, H):
        """Which belief set were the returned alpha vectors computed on, and after how many backups?
        Re-recorded through the public expand_beliefs / point_based_value_iteration (hook H2 would give it directly)."""
        from msdm.algorithms.pointbasedvalueiteration import expand_beliefs, point_based_value_iteration
        mn, mx = cfg["min_belief_expansions"], cfg["max_belief_expansions"]
        pre = min(mn + 1, mx)
        outer = int(res.expansion_iterations) - mn + 1
        j_used = pre + outer - 1
        # the outer loop of the planner by the independent exact re-implementation (where floating point is exact):
        # it says after how many expansions the alpha vectors have to be computed - a planner that stops its
        # expansion / convergence loop elsewhere is judged on the belief set the loop prescribes
        j_ref = self.reference_outer_loop(cfg, eps, H)
        if j_ref is not None:
            self.ctx.count("outer_loops_followed_by_the_exact_reference" + ("" if j_ref == j_used else "[real loop differs]"))
            if j_ref != j_used:
                rec["outer_loop"] = {"expected_expansions_before_the_last_solve": j_ref, "real": j_used}
            j_used = j_ref
        rec["known"] = False
        hor = None if H < 0 else H
        # (a) the expansion sequence by the independent exact farthest-successor rule; None when floating
        #     point could split a tie of distances (some belief involved is not dyadic) or the sets get large
        spec_seq = self.spec_expansions(j_used + 1) if 0 <= j_used <= 12 else None
        # (b) the sequence of the real code, re-recorded through the public function
        exact_seq, why = None, None
        try:
            seq = [np.array([self.p.initial_state_vec])]
            for _ in range(max(j_used, 0) + 1):
                seq.append(self.call("expand_beliefs", expand_beliefs, self.p, seq[-1]))
            used, final = seq[j_used], seq[j_used + 1]
            if j_used < 0 or len(used) != rec["n_alpha"] or final.shape != np.asarray(res.belief_set).shape \
                    or not np.array_equal(final, np.asarray(res.belief_set)):
                why = "the re-recorded expansion sequence does not reproduce the returned belief set"
            else:
                exact_seq = self.exactify(seq)
                if exact_seq is None:
                    why = "a belief of the set is not an exact successor of a member"
        except Exception as e:                               # noqa: BLE001
            why = f"expand_beliefs raised {type(e).__name__}"
        if spec_seq is not None and exact_seq != spec_seq:
            # the code does not follow the farthest-successor rule where the rule is unambiguous: judge the
            # returned policy against the belief set the rule prescribes (DRIFT is reported by the judge)
            rec["deviates"] = {"expected": spec_seq[j_used], "real": None if exact_seq is None else exact_seq[j_used], "why": why}
            if exact_seq is not None:
                self.record_expands(exact_seq, j_used, True)       # TLC rejects the step that drops / adds a belief
            bs = spec_seq[j_used]
            try:
                r = self.call("point_based_value_iteration", point_based_value_iteration, self.p,
                              np.array([self.vec_code(w) for w in bs]), value_convergence_epsilon=float(eps), horizon=hor)
            except Exception as e:                           # noqa: BLE001
                rec["recon"] = f"point_based_value_iteration raised {type(e).__name__} on the prescribed belief set"
                return
            pr = self.project_pbvi(r, bs, eps, H)
            rec.update(known=True, bs=bs, k=pr["k"], k_alt=pr["k_alt"], its=pr["its"], ran_out=pr["ran_out"],
                       acts=pr["acts"], job=self.add_job(bs, eps, H), no_machine_compare=True)
            return
        if exact_seq is None:
            rec["recon"] = why
            return
        try:
            r = self.call("point_based_value_iteration", point_based_value_iteration, self.p, used,
                          value_convergence_epsilon=float(eps), horizon=hor)
        except Exception as e:                               # noqa: BLE001
            rec["recon"] = f"point_based_value_iteration raised {type(e).__name__}"
            return
        pr = self.project_pbvi(r, used, eps, H)
        if not np.array_equal(np.asarray(r["alpha_vectors"]), np.asarray(res.alpha_vectors)):
            # the planner did not run the backup loop it is configured for (threshold / horizon of THIS planner on
            # THIS model, as the fresh call just made does): the statement's slack is the one of the configured run,
            # so the returned policy is judged with the backup count of the fresh call (and the machine's)
            rec["recon"] = ("the planner's alpha vectors are not those of point_based_value_iteration with the planner's "
                            "threshold and horizon on the belief set it returned")
            rec["no_machine_compare"] = True
        rec.update(known=True, bs=exact_seq[j_used], k=pr["k"], k_alt=pr["k_alt"], its=pr["its"], ran_out=pr["ran_out"], acts=pr["acts"])
        if spec_seq is not None:
            self.ctx.count("expansion_sequences_equal_to_the_exact_rule")
        if max(sum(w) for w in exact_seq[j_used]) <= 4096:
            rec["job"] = self.add_job(exact_seq[j_used], eps, H)
        else:
            rec["job"] = None
            self.ctx.skip("belief set with weights too large for the exact machine")
        self.record_expands(exact_seq, j_used, spec_seq is not None)

    def record_expands(self, exact_seq, j_used, strict):
        """Recorded expansion steps for trace validation by TLC (first three of the sequence).  strict: floating
        point is exact here, so every farthest successor must have been added (ExpandAll)."""
        for j in range(min(3, j_used + 1)):
            frm, to = exact_seq[j], exact_seq[j + 1]
            allw = frm + to + [list(x) for w in frm for x in exact_succs(self.mp, w)]
            ex = (2 if strict else 1) if max(sum(w) for w in allw) <= 8 and len(frm) <= 6 else 0
            e = {"from": frm, "to": to, "exact": ex}
            if e not in self.expands and len(to) <= 12:
                self.expands.append(e)

    def reference_outer_loop(self, cfg, eps, H):
        """Number of expansions before the solve whose alpha vectors PointBasedValueIteration._solve returns:
        pre = min(min+1, max) expansions, then up to `max` rounds of (solve; expand; stop when two successive
        solutions differ by less than eps on the EXPANDED set).  Exact (Fractions); None unless the model reveals the
        state (the only place where it is needed), all numbers are dyadic and small enough for doubles to be exact."""
        mp = self.mp
        if not all(sum(1 for n in range(mp["N"]) if mp["O"][a][n][o] > 0) <= 1 for a in range(mp["K"]) for o in range(mp["NO"])):
            return None
        if mp["GD"] & (mp["GD"] - 1):
            return None
        # rare-transition family: the reference works without the 1e-9 entries; every comparison with the
        # threshold must then be decided by a margin of 1e-6 (else no prediction)
        edges = [] if mp.get("rare") else None
        h = H if H >= 0 else py_auto_h(mp, eps)[0]
        S = mp["PD"] * mp["OD"] * mp["GD"]
        rb = max([abs(x) for sa in mp["R"] for row in sa for x in row] + [1])
        if h > 16 or S ** max(h, 1) * rb * 4096 >= 2 ** 52:
            return None
        mn, mx = cfg["min_belief_expansions"], cfg["max_belief_expansions"]
        pre = min(mn + 1, mx)
        if pre + mx > 12:
            mx = 12 - pre           # longer loops are not followed
        seq = self.spec_expansions(pre + mx)
        if seq is None or max(len(B) for B in seq) > 8:
            return None
        key = ("outer", mn, cfg["max_belief_expansions"], eps, H)
        cache = self.__dict__.setdefault("_outer", {})
        if key in cache:
            return cache[key]
        aord = list(self.apos)
        last, i, stopped = None, 0, False
        for i in range(mx):
            alpha, _k, _ph = py_pbvi(mp, [normal(w) for w in seq[pre + i]], eps, h, aord, edges=edges, rare=True)
            if edges:
                cache[key] = None
                return None
            nxt = [normal(w) for w in seq[pre + i + 1]]
            if last is not None:
                diff = max(abs(max(sum(b[s_] * a_[s_] for s_ in range(mp["N"])) for a_ in last)
                               - max(sum(b[s_] * a_[s_] for s_ in range(mp["N"])) for a_ in alpha)) for b in nxt)
                diff = order0(diff)
                if edges is not None and abs(diff - eps) < F(1, 10 ** 6):
                    cache[key] = None
                    return None
                if diff < eps:
                    stopped = True
                    break
            last = alpha
        # a loop cut short here (not the planner's own limit) is not a prediction
        cache[key] = (pre + i) if (stopped or mx == cfg["max_belief_expansions"]) else None
        return cache[key]

    def spec_expansions(self, n):
        """[B_0, ..., B_n] by the exact farthest-successor rule (rows in the order np.unique gives them), or None."""
        def p2(x):
            return x > 0 and x & (x - 1) == 0
        if not hasattr(self, "_spec_seq"):
            self._spec_seq = [[reduce_w(list(self.mp["p0"]))]]
            # all probabilities dyadic: products, sums and quotients by powers of two are exact in floating point
            self._spec_ok = p2(self.mp["PD"]) and p2(self.mp["OD"])
        seq = self._spec_seq

        def key(w):
            t = sum(w)
            return tuple(F(w[self.spos[i]], t) for i in range(len(self.sl)))
        while self._spec_ok and len(seq) <= n:
            B = seq[-1]
            succ = {tuple(w): sorted(exact_succs(self.mp, w)) for w in B}
            if len(B) > 24 or not all(p2(sum(w)) for w in B) or not all(p2(sum(x)) for v in succ.values() for x in v):
                self._spec_ok = False
                break
            nB = [normal(w) for w in B]
            new = []
            for w in B:
                su = succ[tuple(w)]
                if not su:
                    continue
                dm = [min(sum((a - b) ** 2 for a, b in zip(normal(list(x)), v)) for v in nB) for x in su]
                mxd = max(dm)
                if mxd > 0:
                    new += [list(x) for x, d in zip(su, dm) if d == mxd]
            if not new:
                seq.append(list(B))
                continue
            allb = {tuple(w) for w in B} | {tuple(w) for w in new}
            seq.append([list(w) for w in sorted(allb, key=key)])
        return seq[:n + 1] if len(seq) > n else None

    def exactify(self, seq):
        """Float belief sets -> exact integer weights (pruned coordinates), row order kept."""
        mp = self.mp
        p0 = reduce_w(list(mp["p0"]))
        out = []
        prev = [p0]
        for j, arr in enumerate(seq):
            cands = {tuple(w) for w in prev}
            if j > 0:
                for w in prev:
                    cands |= exact_succs(mp, w)
            cl = [(c, [float(x) for x in normal(list(c))]) for c in cands]
            cur = []
            for row in arr:
                ra = self.row_abstract(row)
                hit = [c for c, cf in cl if max(abs(ra[i] - cf[i]) for i in range(len(ra))) <= 1e-9]
                if len(hit) != 1:
                    return None
                cur.append(list(hit[0]))
            out.append(cur)
            prev = cur
        return out

    # ------------------------------------------------------------------ policies at the evaluation beliefs
    def observe_policy(self, rec, pol, kind):
        obs = []
        qonly = kind == "qmdp"
        for i, w in enumerate(self.case["beliefs"]):
            brep = self.case.get("qbrep", ["belief"] * (i + 1))[i] if qonly else self.case["brep"][i]
            o = {"brep": brep}
            try:
                b = self.belief_obj(w, brep)
                o["value"] = float(self.call(f"{kind}.value", pol.value, b))
                o["av"] = [None] * len(self.al)
                for ai, a in enumerate(self.al):
                    o["av"][ai] = float(self.call(f"{kind}.action_value", pol.action_value, b, a))
                d = self.call(f"{kind}.action_dist", pol.action_dist, b)
                o["dist"] = [float(d.prob(a)) for a in self.al]
                o["supp"] = [1 if any(a == x for x in d.support) else 0 for a in self.al]
            except Exception as e:                           # noqa: BLE001
                o["error"] = err_of(e)
            obs.append(o)
        rec["obs"] = obs
        if not qonly and not ALPHAVECTOR_HONOURS_BELIEF_STATES:
            # probe only (see ALPHAVECTOR_HONOURS_BELIEF_STATES): a Belief tuple with permuted states
            for i, w in enumerate(self.case["beliefs"]):
                if len(set(w)) >= 2 and "value" in obs[i]:
                    try:
                        v = float(pol.value(self.belief_obj(w, "belief_perm")))
                        self.ctx.count("alphavector_probe_permuted_belief_tuple_" +
                                       ("honoured" if abs(v - obs[i]["value"]) <= tol(v) else "read_positionally"))
                    except Exception:                        # noqa: BLE001
                        self.ctx.count("alphavector_probe_permuted_belief_tuple_raised")
                    break

    def run_qmdp(self):
        from msdm.algorithms import QMDP, ValueIteration
        solver = self.case["solver"]
        rec = {"kind": "qmdp", "solver": solver, "site": "QMDP.plan_on"}
        try:
            with warnings.catch_warnings():
                warnings.simplefilter("ignore")
                planner = QMDP() if solver == "pi" else QMDP(mdp_solver=ValueIteration(max_residual=1e-10))
                self.warmup(planner, "QMDP")
                res = self.call("QMDP.plan_on", planner.plan_on, self.p)
            self.observe_policy(rec, res.policy, "qmdp")
        except Exception as e:                               # noqa: BLE001
            rec["error"] = err_of(e)
        self.qmdp = rec

    # ------------------------------------------------------------------ greedy records for TLC
    def greedy_records(self):
        for rec in self.s2 + [self.qmdp]:
            for i, o in enumerate(rec.get("obs", [])):
                if "dist" not in o or "error" in o:
                    continue
                vals = sorted(set(o["av"]))
                rank = [vals.index(v) + 1 for v in o["av"]]
                wn = []
                for pr in o["dist"]:
                    x = pr * 6
                    wn.append(int(round(x)) if abs(x - round(x)) < 1e-9 else -1)
                self.greedy.append({"rank": rank, "supp": o["supp"], "wn": wn, "wd": 6})
                self.greedy_meta.append((rec, i))

    def run(self):
        if not self.setup():
            return False
        self.run_s1()
        self.run_s2()
        self.run_qmdp()
        self.greedy_records()
        self.probe_state_dependent_actions()
        return True

    def batch_record(self, tier):
        mp = self.mp
        rec = dict(mp)
        bel = self.case["beliefs"]
        _, _, _, LD = leaf_tables(mp)
        bmax = max([sum(w) for w in bel] + [sum(w) for j in self.jobs for w in j["bs"]])
        rec["d"] = max(1, choose_depth(mp, LD, bmax, tier))
        rec["beliefs"] = bel
        rec["aord"] = self.aord
        rec["jobs"] = self.jobs
        rec["expands"] = self.expands
        rec["greedy"] = self.greedy
        rec["rare"] = [[s_ + 1, a_ + 1, n_ + 1] for s_, a_, n_ in mp["rare"]]
        if sum(1 for x in mp["abs"] if not x) > 3:
            # beyond the closed-form solver of the spec library: TLC certifies these values instead of computing them
            V, _Q, bl, _ = leaf_tables(mp)
            rec["vhint"] = [[x.numerator, x.denominator] for x in V]
            rec["blhint"] = [[[x.numerator, x.denominator] for x in row] for row in bl]
        return rec


def shape_of(m):
    """Input shape named in the signatures: coarse on purpose (one defect = few signatures)."""
    tags = ["revealing-observations" if m["obs_kind"] in ("identity", "permuted") else "partial-observations"]
    if any(m["abs"]) and m.get("ghost"):
        tags.append("ghost-absorbing-states")
    if m.get("rare"):
        tags.append("rare-transition")
    if m.get("near"):
        tags.append("reachable-belief-within-1e-3-of-another")
    if m.get("late"):
        tags.append("belief-entering-late")
    return ",".join(tags)


# ---------------------------------------------------------------------------------------------
# phase 3: judging
# ---------------------------------------------------------------------------------------------
class Judge:
    def __init__(self, ctx, idx, real, recs):
        self.ctx, self.idx, self.real, self.recs = ctx, idx, real, recs
        self.case = real.case
        self.mp = real.mp
        self.ok = True
        self.g = F(self.mp["GN"], self.mp["GD"])
        orc = recs.get(("oracle",))
        if orc is None:
            raise TLCFailure(f"no oracle record for case {idx}")
        self.orc = orc
        self.full = bool(orc["full"])
        self.rmin = frac(orc["rmin"])
        self.rmax = frac(orc["rmax"])
        self.shape = real.shape
        self.rare = bool(self.mp.get("rare"))
        self.rtol = rare_tol(self.mp)

    # ------------------------------------------------------------------ helpers
    def fail(self, site, clause, what, extra=None, shape=None):
        self.ok = False
        sig = f"C08:{site}:{clause}:{shape or self.shape}"
        if self.case.get("reuse"):
            what += f" [planner object had planned a variant with other {self.case['reuse']} before]"
        self.ctx.violation(sig, f"{site} {clause}: {what}"[:700],
                           {"case": self.case, "site": site, "clause": clause, "extra": extra})

    def t(self, x):
        """float against exact rational: 1e-9 relative (+ the perturbation bound of the rare-transition family)"""
        return tol(x) + self.rtol

    def slack_up(self, k):
        return self.g ** k * max(F(0), -self.rmin) / (1 - self.g)

    def slack_lo(self, k):
        return self.g ** k * max(F(0), self.rmax) / (1 - self.g)

    def dyadic(self, bs, eps):
        mp = self.mp

        def p2(x):
            return x > 0 and x & (x - 1) == 0
        return p2(mp["PD"]) and p2(mp["OD"]) and p2(mp["GD"]) and all(p2(sum(w)) for w in bs)

    # ------------------------------------------------------------------ crashes
    def crash(self, rec):
        """An exception on an in-scope POMDP / configuration: no value is given at all."""
        name, msg, where = rec["error"]
        eps, H = rec.get("eps"), rec.get("H")
        site = where or rec["site"]
        shape = None
        self.fail(site, f"raised-{name}", f"{msg} [called through {rec['site']}, eps={eps}, horizon={'None' if H is not None and H < 0 else H}]",
                  extra={"kind": rec["kind"], "idx": rec.get("idx")}, shape=shape)

    # ------------------------------------------------------------------ PBVI jobs
    def job_k(self, rec):
        """(k for the slack, machine record or None, robust?) for one run of the backup loop."""
        jr = self.recs.get(("pbvi", rec["job"], "first")) if rec.get("job") else None
        kc = rec.get("k")
        if jr is None or jr["phase"] == "skipped":
            return kc, jr, False
        ks = jr["k"]
        bs = rec["bs"]
        # (rare-transition family: the machine works without the 1e-9 entries, a stop test could fall differently)
        robust = not self.rare and (self.dyadic(bs, rec["eps"]) or not (jr["tied"] or jr["edge"]))
        if robust:
            return ks, jr, True
        self.ctx.count("runs_with_float_dependent_ties")
        return (min(ks, kc) if kc is not None else ks), jr, False

    def compare_machine(self, rec, jr, robust):
        """Reference machine vs the real loop: DRIFT when it does not explain the run."""
        if jr is None or jr["phase"] == "skipped" or not robust or "alpha" not in rec \
                or rec.get("no_machine_compare"):
            return None
        sc = jr["scale"]
        exp = [[F(x, sc) for x in row] for row in jr["alpha"]]
        got = rec["alpha"]
        same = jr["k"] in (rec.get("k"), rec.get("k_alt")) and len(exp) == len(got) and all(
            abs(got[p][s] - float(exp[p][s])) <= self.t(exp[p][s]) for p in range(len(exp)) for s in range(len(exp[p])))
        if same and jr["phase"] in ("stopped", "horizon") and self.dyadic(rec["bs"], rec["eps"]) \
                and [a + 1 for a in rec.get("acts", [])] != list(jr["acts"]):
            same = False        # the action attached to each alpha vector (alpha_actions) differs
        if same:
            self.ctx.count("runs_explained_by_the_backup_machine")
        else:
            self.ctx.drift("Backup", {"case": self.idx, "site": rec["site"], "expected_k": jr["k"], "real_k": rec.get("k"),
                                      "phase": jr["phase"], "expected_alpha": [[str(x) for x in r] for r in exp][:3],
                                      "real_alpha": got[:3], "expected_actions": list(jr.get("acts", [])),
                                      "real_actions": [a + 1 for a in rec.get("acts", [])]})
        return same

    def judge_s1(self, rec):
        if "error" in rec:
            self.crash(rec)
            return
        k, jr, robust = self.job_k(rec)
        same = self.compare_machine(rec, jr, robust)
        if k is None:
            return
        alpha = np.array(rec["alpha"])
        allok = True
        for i, w in enumerate(self.case["beliefs"]):
            ob = self.orc["b"][i]
            v = float(np.max(alpha @ np.array([float(x) for x in normal(w)])))
            allok &= self.value_clauses("point_based_value_iteration", v, i, ob, k, jr, rec, None)
        if allok and same:
            self.ctx.validated += 1

    def value_clauses(self, site, v, i, ob, k, jr, rec, qv):
        """Clauses on the value of the alpha vectors at evaluation belief i.  k = backups for the slack."""
        hi, lo = frac(ob["hi"]), frac(ob["lo"])
        su = self.slack_up(k)
        ok = True
        extra = {"belief": self.case["beliefs"][i], "kind": rec["kind"], "idx": rec.get("idx"), "k": k}
        if not v <= float(hi + su) + self.t(hi + su):
            self.fail(site, "value-exceeds-optimal-value-plus-slack",
                      f"value {v!r} at belief {self.case['beliefs'][i]} > Hi_d {hi} + slack {su} (k={k} backups; Lo_d={lo})", extra)
            ok = False
        if qv is not None and not v - qv <= float(su) + self.t(su) + self.t(qv):
            self.fail(site, "exceeds-QMDP-by-more-than-slack",
                      f"PBVI value {v!r} - QMDP value {qv!r} > slack {su} at belief {self.case['beliefs'][i]}", extra)
            ok = False
        # coincidence with the optimum when observations reveal the state: only where the point-based
        # backup is exact (member of a successor-closed belief set; spec invariant ClosedExact)
        if self.full and jr is not None and jr.get("closed") and jr["inset"][i]:
            sl = self.slack_lo(k)
            if not v >= float(hi - sl) - self.t(hi - sl):
                self.fail(site, "fully-observable-value-below-optimum-minus-slack",
                          f"value {v!r} at belief {self.case['beliefs'][i]} < V* {hi} - slack {sl} (k={k}, closed belief set)", extra)
                ok = False
            self.ctx.count("coincidence_clause_checked")
        return ok

    def judge_s2(self, rec):
        if "error" in rec:
            self.crash(rec)
            return
        if rec.get("outer_loop"):
            self.ctx.drift("OuterLoop", {"case": self.idx, "what": "the expansion / convergence loop of the planner ended after "
                                         "another number of expansions than the loop prescribes", **rec["outer_loop"]})
        if rec.get("deviates"):
            self.ctx.drift("Expand", {"case": self.idx, "what": "the belief set of the planner is not the one the "
                                      "farthest-successor rule prescribes", **rec["deviates"]})
        if rec.get("known"):
            k, jr, robust = self.job_k(rec)
            same = self.compare_machine(rec, jr, robust)
            if rec.get("recon"):
                self.ctx.drift("Reconstruct", {"case": self.idx, "why": rec["recon"]})
                same = False
        else:
            # which backups produced the vectors is unknown without hook H2: only the k = 0 slack is sound
            k, jr, same = 0, None, None
            self.ctx.skip("planner run whose belief set / backup count could not be re-recorded (slack of 0 backups used)")
            if rec.get("recon", "").startswith("a belief of the set is not an exact"):
                # only reachable where floating point is inexact (otherwise the prescribed sequence decides): a
                # limitation of the harness's matching of float rows to exact successors, not a mismatch of the code
                self.ctx.skip("belief set whose float rows could not be matched to exact successor beliefs (inexact model)")
            elif rec.get("recon"):
                self.ctx.drift("Reconstruct", {"case": self.idx, "why": rec["recon"]})
        qobs = (self.real.qmdp or {}).get("obs")
        allok = True
        for i, w in enumerate(self.case["beliefs"]):
            ob = self.orc["b"][i]
            o = rec["obs"][i]
            if "error" in o:
                self.fail("AlphaVectorPolicy", f"raised-{o['error'][0]}", f"belief {w} as {o['brep']}: {o['error']}",
                          {"belief": w, "idx": rec["idx"]}, shape=f"belief-as-{o['brep']}")
                allok = False
                continue
            qv = qobs[i]["value"] if qobs and "value" in qobs[i] else None
            allok &= self.value_clauses("PointBasedValueIteration.plan_on", o["value"], i, ob, k, jr, rec, qv)
            # the value must be the value of the returned alpha vectors (AlphaVectorPolicy.value)
            va = float(np.max(np.array(rec["alpha"]) @ np.array([float(x) for x in normal(w)])))
            if not abs(va - o["value"]) <= self.t(va):
                self.fail("AlphaVectorPolicy.value", "value-is-not-the-maximum-over-alpha-vectors",
                          f"value {o['value']!r} vs max alpha.b {va!r} at belief {w} ({o['brep']})", {"belief": w, "idx": rec["idx"]})
                allok = False
            allok &= self.lookahead_clauses(rec, o, i, ob, k, jr)
        if allok and same is not False:
            self.ctx.validated += 1

    def lookahead_clauses(self, rec, o, i, ob, k, jr):
        """One-step look-ahead values of the alpha vectors (AlphaVectorPolicy.action_value)."""
        if ob["ghostmass"]:
            # the look-ahead uses the declared rows of absorbing states: outside the statement
            self.ctx.skip("look-ahead at a belief with mass on an absorbing state with ghost dynamics")
            return True
        ok = True
        w = self.case["beliefs"][i]
        su = self.slack_up(k + 1)
        for ai, a in enumerate(self.real.apos):
            qhi = frac(ob["qhi"][a])
            v = o["av"][ai]
            extra = {"belief": w, "idx": rec["idx"], "action": a, "k": k}
            if not v <= float(qhi + su) + self.t(qhi + su):
                self.fail("AlphaVectorPolicy.action_value", "look-ahead-exceeds-optimal-action-value-plus-slack",
                          f"action_value {v!r} (action {a}) at belief {w} > HiQ_d {qhi} + slack {su} (k={k})", extra)
                ok = False
            if self.full and jr is not None and jr.get("closed") and jr["cov"][i]:
                sl = self.slack_lo(k + 1)
                if not v >= float(qhi - sl) - self.t(qhi - sl):
                    self.fail("AlphaVectorPolicy.action_value", "fully-observable-look-ahead-below-optimum-minus-slack",
                              f"action_value {v!r} (action {a}) at belief {w} < Q* {qhi} - slack {sl} (k={k})", extra)
                    ok = False
        return ok

    # ------------------------------------------------------------------ QMDP
    def judge_qmdp(self):
        rec = self.real.qmdp
        if rec is None:
            return
        if "error" in rec:
            self.crash(rec)
            return
        # value iteration stops when |V' - V| <= res: |Q - Q*| <= gamma res / (1 - gamma)
        extra_tol = 0.0 if rec["solver"] == "pi" else float(1e-10 / (1 - self.g))
        allok = True
        for i, w in enumerate(self.case["beliefs"]):
            ob = self.orc["b"][i]
            o = rec["obs"][i]
            if "error" in o:
                self.fail("QMDPPolicy", f"raised-{o['error'][0]}", f"belief {w}: {o['error']}", {"belief": w})
                allok = False
                continue
            for ai, a in enumerate(self.real.apos):
                ex = frac(ob["qmdp"][a])
                if not abs(o["av"][ai] - float(ex)) <= self.t(ex) + extra_tol:
                    self.fail("QMDPPolicy.action_value", "not-the-belief-weighted-optimal-MDP-action-value",
                              f"action_value {o['av'][ai]!r} (action {a}) at belief {w}, exact sum_s b(s) Q*(s,a) = {ex} (solver {rec['solver']})",
                              {"belief": w, "action": a})
                    allok = False
            lo = frac(ob["lo"])
            if not o["value"] >= float(lo) - self.t(lo) - extra_tol:
                self.fail("QMDPPolicy.value", "value-below-optimal-value",
                          f"QMDP value {o['value']!r} at belief {w} < Lo_d {lo} <= V*", {"belief": w})
                allok = False
            h1 = frac(ob["h1"])
            if not abs(o["value"] - float(h1)) <= self.t(h1) + extra_tol:
                self.fail("QMDPPolicy.value", "value-is-not-the-maximal-action-value",
                          f"QMDP value {o['value']!r} at belief {w}, exact max_a sum_s b(s) Q*(s,a) = {h1}", {"belief": w})
                allok = False
        if allok:
            self.ctx.validated += 1

    # ------------------------------------------------------------------ trace validations decided by TLC
    def judge_greedy(self):
        for n, (rec, i) in enumerate(self.real.greedy_meta, start=1):
            g = self.recs.get(("greedy", n))
            if g is None:
                raise TLCFailure(f"case {self.idx}: no verdict for greedy record {n}")
            if g["ok"]:
                self.ctx.count("action_distributions_validated")
                continue
            o = rec["obs"][i]
            site = "QMDPPolicy.action_dist" if rec["kind"] == "qmdp" else "AlphaVectorPolicy.action_dist"
            self.fail(site, "not-uniform-over-the-maximisers-of-its-own-action-values",
                      f"action values {o['av']} -> distribution {o['dist']} (support {o['supp']}) at belief {self.case['beliefs'][i]}",
                      {"belief": self.case["beliefs"][i], "kind": rec["kind"], "idx": rec.get("idx")})

    def judge_expands(self):
        for n, e in enumerate(self.real.expands, start=1):
            r = self.recs.get(("expand", n))
            if r is None:
                raise TLCFailure(f"case {self.idx}: no verdict for expansion record {n}")
            if r["ok"]:
                self.ctx.count("expansions_explained" + ("_exact_rule" if e["exact"] else "_membership"))
            else:
                self.ctx.drift("Expand", {"case": self.idx, "from": e["from"], "to": e["to"], "exact_rule": e["exact"]})

    def run(self):
        ctx = self.ctx
        for rec in self.real.s1:
            self.judge_s1(rec)
        for rec in self.real.s2:
            self.judge_s2(rec)
        self.judge_qmdp()
        if getattr(self.real, "probe_drift", None):
            ctx.drift("ObservationTensor", {"case": self.idx, "what": "with state-dependent action sets observation_matrix[a, ns] is "
                                            "not observation_dist(a, ns) for an action the next state does not offer", **self.real.probe_drift})
        self.judge_greedy()
        self.judge_expands()
        # non-triviality: a belief with >= 2 supported non-absorbing states at which two actions differ in
        # their exact upper action value and the optimum is not 0
        na = {s - 1 for s in self.orc["na"]}
        for i, w in enumerate(self.case["beliefs"]):
            ob = self.orc["b"][i]
            if len([s for s in na if w[s] > 0]) >= 2 and len({tuple(x) for x in ob["qhi"]}) >= 2 \
                    and (frac(ob["hi"]) != 0 or frac(ob["lo"]) != 0):
                ctx.nontrivial(digest([self.case["m"], w]))
        if self.ok:
            ctx.count("cases_fully_conformant")


# ---------------------------------------------------------------------------------------------
# machinery cross-check: the TLA+ oracle and machine against the independent Fraction versions
# ---------------------------------------------------------------------------------------------
def crosscheck(idx, real, recs, brec):
    mp = real.mp
    orc = recs[("oracle",)]
    V, Q, bl, LD = leaf_tables(mp)
    if [frac(x) for x in orc["v"]] != V:
        raise TLCFailure(f"case {idx}: V*_MDP differs (TLA+ {orc['v']} vs Python {V})")
    if [[frac(x) for x in row] for row in orc["q"]] != Q:
        raise TLCFailure(f"case {idx}: Q*_MDP differs (TLA+ vs Python)")
    if orc["LD"] != LD:
        raise TLCFailure(f"case {idx}: leaf denominators differ")
    na = [s for s in range(mp["N"]) if s not in absall(mp)]
    if sorted(s - 1 for s in orc["na"]) != na:
        raise TLCFailure(f"case {idx}: non-absorbing sets differ")
    d = brec["d"]
    for i, w in enumerate(real.case["beliefs"]):
        b = normal(w)
        ob = orc["b"][i]
        lo, hi = py_em(mp, na, V, bl, b, d)
        if (frac(ob["lo"]), frac(ob["hi"])) != (lo, hi):
            raise TLCFailure(f"case {idx} belief {w}: bracket differs (TLA+ {ob['lo']}, {ob['hi']} vs Python {lo}, {hi})")
        for a in range(mp["K"]):
            ql, qh = py_emq(mp, na, V, bl, b, d, a)
            if (frac(ob["qlo"][a]), frac(ob["qhi"][a])) != (ql, qh):
                raise TLCFailure(f"case {idx} belief {w} action {a}: action bracket differs")
            if frac(ob["qmdp"][a]) != sum(b[s] * Q[s][a] for s in range(mp["N"])):
                raise TLCFailure(f"case {idx} belief {w} action {a}: QMDP value differs")
    for jn, job in enumerate(real.jobs, start=1):
        jr = recs.get(("pbvi", jn, "first"))
        if jr is None:
            raise TLCFailure(f"case {idx}: no machine record for job {jn}")
        eps = F(job["EN"], job["ED"])
        h, _ = (job["H"], False) if job["H"] >= 0 else py_auto_h(mp, eps)
        if jr["phase"] == "skipped":
            if min(h, HCAP + 1) != jr["h"] and job["H"] < 0:
                raise TLCFailure(f"case {idx} job {jn}: automatic horizon differs (TLA+ {jr['h']} vs Python {h})")
            continue
        bs = [normal(w) for w in job["bs"]]
        alpha, k, phase = py_pbvi(mp, bs, eps, h, [a - 1 for a in real.aord])
        sc = jr["scale"]
        if k != jr["k"] or phase != jr["phase"] or [[F(x, sc) for x in row] for row in jr["alpha"]] != alpha:
            raise TLCFailure(f"case {idx} job {jn}: backup machine differs (TLA+ k={jr['k']} {jr['phase']} vs Python k={k} {phase})")


# ---------------------------------------------------------------------------------------------
def judge_cases(ctx, cases, *, tamper=None, mutate_records=None, mutate_batch=None, ties="both"):
    reals = []
    for c in cases:
        r = Real(ctx, c, tamper=tamper)
        if r.run():
            reals.append(r)
    if not reals:
        return
    batch = [r.batch_record(ctx.tier) for r in reals]
    if mutate_batch is not None:
        mutate_batch(batch)
    res = run_tlc(ctx.workdir / "mc", "C08_Bounds", CFG, files={"batch.json": batch},
                  env={"BATCH_FILE": "batch.json", "TIES": ties})
    # (-coverage 1 exhausts the heap on the recursive oracle operators; the per-action counts are taken from
    #  the emitted records instead: every terminal state of every behaviour prints one)
    ac = ctx.extra.setdefault("action_counts", {"Prep": 0, "Start": 0, "Backup": 0, "Expand": 0, "Greedy": 0})
    for r in res.records:
        if r["kind"] == "oracle":
            ac["Prep"] += 1
        elif r["kind"] == "pbvi":
            ac["Start"] += 1
            if r["phase"] in ("stopped", "horizon"):
                ac["Backup"] += r["k"] + (1 if r["phase"] == "stopped" else 0)
        elif r["kind"] == "expand":
            ac["Expand"] += 1
        elif r["kind"] == "greedy":
            ac["Greedy"] += 1
    ctx.add_tlc(res, "oracle (Q*_MDP, blind policies, expectimax bracket) + point-based backup machine on every belief set "
                     "+ validation of recorded expansions and action distributions")
    bad = [v for v in res.violated if v in DESIGN_INVS]
    if bad:
        raise TLCFailure(f"design-level invariant violated in C08_Bounds: {sorted(set(bad))}\n"
                         + (res.traces[0][:3000] if res.traces else ""))
    per = {}
    for r in res.records:
        kind = r["kind"]
        if kind == "oracle":
            key = ("oracle",)
        elif kind == "pbvi":
            key = ("pbvi", r["job"], r["tb"])
        else:
            key = (kind, r["rec"])
        per.setdefault(r["iid"], {})[key] = r
    for i, real in enumerate(reals, start=1):
        if not per.get(i):
            raise TLCFailure(f"no records for case {i}")
        if i % 4 == 1:
            crosscheck(i, real, per[i], batch[i - 1])
            ctx.count("oracle_and_machine_crosschecks")
    if mutate_records is not None:
        mutate_records(per)
    for i, real in enumerate(reals, start=1):
        recs = per[i]
        Judge(ctx, i, real, recs).run()
        mp = real.mp
        ctx.sample({"instance": {k: mp[k] for k in ("N", "K", "NO", "PD", "OD", "GN", "GD", "abs", "P", "R", "O", "p0")},
                    "rep": real.case["rep"], "beliefs": real.case["beliefs"], "depth": batch[i - 1]["d"],
                    "bracket_at_first_belief": [recs[("oracle",)]["b"][0]["lo"], recs[("oracle",)]["b"][0]["hi"]],
                    "configurations": real.case["cfgs"]}, limit=4)


def run(ctx):
    rng = random.Random(ctx.seed * 104729 + 8)
    n = 220 if ctx.tier == "quick" else 2400
    ctx.rule = ("random discounted tabular POMDPs (2-4 states incl. 0-2 absorbing ones with or without ghost dynamics, 1-3 actions, "
                "1-3 observations; observation kernels random / identity / action-permuted identity / single / uninformative; "
                "rewards mixed / non-negative / non-positive / constant; discount 1/2, 3/4, 1/4, 9/10; every 16th case a near-belief instance (initial mass 1/2048 on a state with a "
                "catastrophic reward, a reachable vertex within 1e-3 of the initial belief with another best action); every 8th case a rare-transition "
                "instance: revealing observations, one state entered with probability 1e-9 only, another action best there) x evaluation beliefs "
                "(initial, vertices incl. absorbing, simplex points with a zero component, filter-reachable) x direct backup "
                "runs and planner configurations (thresholds, horizons incl. None and 0, expansion budgets) x QMDP with PI / VI; "
                "beliefs handed over as Belief tuples (canonical; for QMDP also permuted / support-only state lists), dictionaries "
                "(support only, with zeros, permuted insertion order) and lists; in 5 of 6 cases the planner objects (QMDP, "
                "PointBasedValueIteration) have planned a variant POMDP with other rewards / observations / discount first. "
                "non-trivial = (instance, belief) with >= 2 supported non-absorbing states, two actions with different exact "
                "upper action values and a non-zero optimum")
    ctx.assumptions = [
        "TLC evaluates the TLA+ oracle and machine correctly (every 4th case is recomputed by independent Fraction code)",
        "absorbing states end the episode (POMDPPolicy.run_on): mass on them earns nothing and is not propagated",
        "the optimal value is bracketed, not computed: Lo_d <= V* <= Hi_d (exact when observations reveal the state)",
        "slack of k backups: gamma^k max(0,-rmin)/(1-gamma) above, gamma^k max(0,rmax)/(1-gamma) below; k is the "
        "spec's count when floating point cannot change an argmax or the stop test, else the smaller of spec and code",
        "the coincidence clause is judged at members of a successor-closed belief set only (elsewhere a point-based "
        "value is legitimately lower); the look-ahead clause at beliefs whose successors are members",
        "float results are compared with exact rationals at 1e-9 relative",
        "state-dependent action sets are outside the statement (no POMDP semantics: the agent cannot know what its hidden state "
        "offers; PBVI scores an action that is not offered as 'reward 0, episode over' - an over-estimate with negative rewards - "
        "and QMDP as -inf); only the observation tensor is probed on such a copy of the model (DRIFT)",
        "rare-transition family: the integer model leaves the 1e-9 entries out of the numbers and keeps them in the structure "
        "(successor beliefs, closure); values are compared with the extra perturbation bound 2 eps max|R| / (1-gamma)^2",
        "AlphaVectorPolicy reads Belief tuples positionally (ignores the states field): permuted / support-only Belief tuples are "
        "only probed and counted for it (ALPHAVECTOR_HONOURS_BELIEF_STATES), judged for QMDP",
    ]
    cases = make_cases(rng, n, ctx.tier)
    chunk = 220 if ctx.tier == "quick" else 200
    for k0 in range(0, len(cases), chunk):
        judge_cases(ctx, cases[k0:k0 + chunk], ties=("both" if k0 == 0 else "first"))


def replay(ctx, case):
    judge_cases(ctx, [case["case"]])


def selftest(ctx):
    """Binding demonstration; each corruption must be reported:
    (1) a value returned by the real code is corrupted (PBVI policy value, QMDP action value);
    (2) an expected value emitted by TLC is swapped (upper bound lowered);
    (3) msdm is handed an instance with the sign of the rewards flipped;
    (4) a recorded action distribution loses one maximiser / a recorded expansion gains a foreign belief."""
    rng = random.Random(5)
    cases = make_cases(rng, 10, "quick")
    ok = True

    def tamper(site, out):
        if site == "pbvi.value":
            return out + 50.0
        if site == "qmdp.action_value":
            return out + 0.001
        return out
    before = len(ctx.violations)
    judge_cases(ctx, cases[:4], tamper=tamper, ties="first")
    sigs = [v[0] for v in ctx.violations[before:]]
    ok &= any("value-exceeds-optimal-value-plus-slack" in s for s in sigs)
    ok &= any("not-the-belief-weighted-optimal-MDP-action-value" in s for s in sigs)

    def mutate(per):
        for recs in per.values():
            for ob in recs[("oracle",)]["b"]:
                ob["hi"] = [ob["hi"][0] - 100 * ob["hi"][1], ob["hi"][1]]
    before = len(ctx.violations)
    judge_cases(ctx, cases[:3], mutate_records=mutate, ties="first")
    ok &= any("value-exceeds" in v[0] for v in ctx.violations[before:])

    flipped = []
    for c in cases:
        if c["m"]["rfam"] in ("nonpos", "mixed"):
            c2 = copy.deepcopy(c)
            mb = copy.deepcopy(c["m"])
            mb["R"] = [[[abs(x) + 1 for x in row] for row in sa] for sa in mb["R"]]
            c2["m_build"] = mb
            flipped.append(c2)
    before = len(ctx.violations)
    judge_cases(ctx, flipped[:3], ties="first")
    ok &= any("raised-" not in v[0] for v in ctx.violations[before:])

    def tamper2(site, out):
        if site.endswith(".action_dist"):
            from msdm.core.distributions import DictDistribution
            sup = list(out.support)
            if len(sup) > 1:
                return DictDistribution({sup[0]: 0.75, sup[1]: 0.25})
        return out
    before = len(ctx.violations)
    judge_cases(ctx, cases[:6], tamper=tamper2, ties="first")
    ok &= any("not-uniform" in v[0] for v in ctx.violations[before:])

    # recorded traces corrupted before TLC validates them: a maximiser dropped from one recorded action
    # distribution, a foreign belief put into one recorded expansion
    state = {"greedy": False, "expand": False}

    def corrupt(batch):
        for b in batch:
            for g in b["greedy"]:
                if not state["greedy"] and sum(g["supp"]) >= 2:
                    i = g["supp"].index(1)
                    g["supp"][i], g["wn"][i] = 0, 0
                    state["greedy"] = True
            for e in b["expands"]:
                if not state["expand"] and len(e["to"]) > len(e["from"]) and b["N"] >= 2:
                    foreign = [7 if s == 0 else 11 for s in range(b["N"])]
                    if foreign not in e["to"]:
                        e["to"] = e["to"] + [foreign]
                        state["expand"] = True
    before, dbefore = len(ctx.violations), len(ctx.drifts)
    judge_cases(ctx, cases, mutate_batch=corrupt, ties="first")
    ok &= state["greedy"] and any("not-uniform" in v[0] for v in ctx.violations[before:])
    ok &= state["expand"] and any(d["step"] == "Expand" for d in ctx.drifts[dbefore:])
    return bool(ok)
