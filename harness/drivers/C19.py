"""C19 - entropy-regularised policy iteration converges to the soft Bellman fixed point.

spec/C19_SoftPI.tla decides every verdict.  exp / log do not exist in TLC, so the transcendental clauses are
checked in their equivalent form  lambda * log(pi / prior) = Q - V  with ONE trusted math.log per logged entry
(computed here from the RETURNED policy and the GIVEN prior; nothing transcendental is read from msdm).

Pipelines
  MC - TLC explores the zero-temperature limit of the loop (uniform-over-maximisers policy iteration with exact
       rational evaluation) from every initial support of every oracle-sized instance: it stops exactly at the
       optimal values (ZeroTempOptimal), improves monotonically (MonotoneImprovement), stays inside the reward
       bounds.
  B  - the real function entropy_regularized_policy_iteration / class EntropyRegularizedPolicyIteration is run on
       tensors / msdm objects built from random instances (2-6 states, 1-4 actions, rational tensors, integer
       rewards in five broadcast shapes, scalar float / int / 1-tensor / per-state entropy weights from 1e-3 to 10,
       default / shared / per-state priors, default / given initial policy, with and without forced non-zero
       probabilities, float64 and float32).  The iterates pi_j, q_j, v_j are observed through the public API with
       n_planning_iters = 1, 2, ... (prefix runs), quantised to 1/2^20 and validated by TLC action by action
       (Start / Evaluate / Improve / Converge / Cap); Converge judges the statement's clauses on the returned
       iterate, including the distance to the exact optimal action values for sequences of decreasing weights.
Python only builds objects, runs msdm, projects to integers, and maps TLC's failure records to VIOLATION / DRIFT.
"""
import math
import os
import random
import warnings
from fractions import Fraction as F

from .. import gen, build, pyoracle
from ..core import digest
from ..tlc import run_tlc, TLCFailure

MODULE = "C19_SoftPI"
U = 2 ** 20
LIM = 2 ** 30 - 1
LZERO = -740                 # logged log-ratio of an entry that is exactly 0 (true value below -741)
MAXEV = 14                   # at most this many iterates are logged per run (the tail when a run is longer)
NMAIN = 400                  # iteration budget of the main run

INST_KEYS = ("N", "K", "PD", "GN", "GD", "ID", "abs", "avail", "P", "R", "p0")
DESIGN_INVS = ["ZeroTempOptimal", "SupportsNonEmpty", "MonotoneImprovement", "MCWithinRewardBounds", "InstancesOK"]
CFG_MC = ("INIT Init\nNEXT Next\nCHECK_DEADLOCK FALSE\nINVARIANT Emit\nINVARIANT ZeroTempOptimal\n"
          "INVARIANT SupportsNonEmpty\nINVARIANT MCWithinRewardBounds\nINVARIANT InstancesOK\n"
          "PROPERTY MonotoneImprovement\n")
CFG_TRACE = "INIT Init\nNEXT Next\nCHECK_DEADLOCK FALSE\nINVARIANT Emit\nINVARIANT InstancesOK\n"

LOG_LB = [0, 6931, 10986, 13862, 16094, 17917, 19459, 20794, 21972, 23025, 23978, 24849, 25649, 26390, 27080, 27725]
LOG_UB = [0, 6932, 10987, 13863, 16095, 17918, 19460, 20795, 21973, 23026, 23979, 24850, 25650, 26391, 27081, 27726]

WEIGHTS = [(1, 1000), (1, 1000), (1, 100), (7, 100), (1, 10), (3, 10), (1, 2), (1, 1), (2, 1), (5, 1), (10, 1)]
INT_WEIGHTS = [(1, 1), (2, 1), (5, 1), (10, 1)]
LIMIT_SEQ = [(1, 1), (1, 10), (1, 100), (1, 1000)]
DISCOUNTS = [(1, 2), (1, 2), (3, 4), (9, 10), (9, 10), (1, 10)]
REPS = [
    dict(rep="quick", labels="int", alabels="int", dist="dict"),
    dict(rep="subclass", labels="str", alabels="str", dist="dict_zeros"),
    dict(rep="matrices", labels="tuple", alabels="int", dist="dict"),
    dict(rep="quick", labels="str", alabels="tuple", dist="det"),
    dict(rep="subclass", labels="mixed", alabels="mixed", dist="uniform"),
]


# --------------------------------------------------------------------------------------------
# case generation
# --------------------------------------------------------------------------------------------
def rand_comp(rng, total, parts):
    """Random composition of `total` into `parts` POSITIVE integers."""
    cuts = sorted(rng.sample(range(1, total), parts - 1)) if parts > 1 else []
    xs, prev = [], 0
    for c in cuts + [total]:
        xs.append(c - prev)
        prev = c
    return xs


def shape_rewards(rng, m, shape):
    """Make R constant along the broadcast axes of the chosen reward tensor shape."""
    N, K = m["N"], m["K"]
    R = m["R"]
    if shape == "ns":
        row = list(R[0][0])
        m["R"] = [[list(row) for _ in range(K)] for _ in range(N)]
    elif shape == "s":
        m["R"] = [[[R[s][0][0]] * N for _ in range(K)] for s in range(N)]
    elif shape == "sa":
        m["R"] = [[[R[s][a][0]] * N for a in range(K)] for s in range(N)]
    elif shape == "a":
        m["R"] = [[[R[0][a][0]] * N for a in range(K)] for s in range(N)]


def rand_instance(rng, N, K, PD, GN, GD, rmax):
    m = gen.rand_mdp(rng, n_na=N, n_abs=0, K=K, PD=PD, GN=GN, GD=GD, rewards=tuple(range(-rmax, rmax + 1)),
                     ID=1, uniform_actions=True, p_implicit=0.05, multi_init=False)
    return m


def reward_bound(m):
    rabs = max([abs(x) for s in range(m["N"]) for a in range(m["K"]) if m["avail"][s][a] for x in m["R"][s][a]] + [1])
    return rabs / (1 - m["GN"] / m["GD"])


def statedep(m):
    return any(0 in row for row in m["avail"])


def magnitude_fine(m, lam, PRD, pmin):
    """Every iterate's value stays below 250 in magnitude: (max|R| + lambda ln(1/pmin)) / (1 - gamma).  With
    state-dependent action sets the regular family additionally stays where the wrapper's emulation of a zero prior
    (smallest positive float, logit -708) cannot compete: max|R| / (1 - gamma) < 600 lambda (the region beyond is
    the business of CLAMP_CASES)."""
    rabs = max([abs(x) for s in m["R"] for a in s for x in a] + [1])
    lmax = max(F(n, d) for n, d in lam)
    lmin = min(F(n, d) for n, d in lam)
    g = F(m["GN"], m["GD"])
    if statedep(m) and not reward_bound(m) < 600 * float(lmin):
        return False
    return (rabs + float(lmax) * math.log(PRD / pmin)) / (1 - float(g)) < 250 and rabs / (1 - float(g)) < 120


def make_case(rng, i, *, limit=None):
    """One (instance, configuration).  limit = (instance, weight) for the decreasing-weight families."""
    while True:
        case = _make_case(rng, i, limit=limit)
        c = case["cfg"]
        if magnitude_fine(case["m"], c["lam"], c["PRD"], min(x for r in c["pn"] for x in r if x > 0)):
            return case


def _make_case(rng, i, *, limit=None):
    iface = "class" if (limit is None and i % 5 == 4) else "function"
    if limit is not None:
        m = dict(limit[0])
    else:
        while True:
            small = rng.random() < 0.55
            N = rng.choice([2, 2, 3, 3]) if small else rng.choice([2, 3, 4, 5, 6])
            K = rng.choice([1, 2, 2, 3, 3, 4])
            GN, GD = rng.choice(DISCOUNTS) if small else rng.choice(DISCOUNTS + [(99, 100)])
            PD = rng.choice([2, 4]) if small else rng.choice([2, 4, 3, 5, 10])
            rmax = 1 if GD == 100 else rng.choice([1, 2, 4])
            m = rand_instance(rng, N, K, PD, GN, GD, rmax)
            if rng.random() < 0.15 and N >= 2:
                # corner: a state whose every action self-loops with reward 0 (would be "absorbing" for the planners)
                s = rng.randrange(N)
                for a in range(K):
                    m["P"][s][a] = [PD if t == s else 0 for t in range(N)]
                    m["R"][s][a][s] = 0
            break
    N, K = m["N"], m["K"]
    if iface == "class" and K >= 2 and rng.random() < 0.5:
        # the planner wrapper on an MDP whose states offer different action sets (ghost dynamics on the others)
        while not statedep(m):
            m["avail"] = [[1 if rng.random() < 0.6 else 0 for _ in range(K)] for _ in range(N)]
            if not all(any(r) for r in m["avail"]):
                m["avail"] = [[1] * K for _ in range(N)]
    shape = "full" if (limit is not None or iface == "class") else rng.choice(["full", "full", "ns", "s", "sa", "a"])
    if limit is None:
        shape_rewards(rng, m, shape)
    # prior
    pform = "none" if limit is not None else rng.choice(["none", "shared", "shared", "perstate"] if iface == "function"
                                                        else ["none", "none", "shared"])
    if K == 1 and pform != "none":
        pform = "shared"
    if statedep(m):
        pform = "none"           # the wrapper's own prior: uniform over the available actions of each state
    if pform == "none" and statedep(m):
        PRD, pn = 12, [[(12 // sum(row)) * x for x in row] for row in m["avail"]]
    elif pform == "none":
        PRD, pn = K, [[1] * K for _ in range(N)]
    else:
        PRD = rng.choice([d for d in (4, 8, 10, 16) if d >= K])
        if pform == "shared":
            row = rand_comp(rng, PRD, K)
            pn = [list(row) for _ in range(N)]
        else:
            pn = [rand_comp(rng, PRD, K) for _ in range(N)]
    pmin = min(x for r in pn for x in r if x > 0)
    # entropy weight
    for _ in range(100):
        if limit is not None:
            wform, lam = "float", [limit[1]] * N
        else:
            wform = rng.choice(["float", "float", "float", "int", "tensor1", "vector", "vector"])
            if wform == "vector":
                lam = [rng.choice(WEIGHTS) for _ in range(N)]
            elif wform == "int":
                lam = [rng.choice(INT_WEIGHTS)] * N
            else:
                lam = [rng.choice(WEIGHTS)] * N
        if magnitude_fine(m, lam, PRD, pmin):
            break
    else:
        wform, lam = "float", [(1, 10)] * N
    # initial policy
    iform = "none" if (iface == "class" or limit is not None or rng.random() < 0.8) else "given"
    if iform == "none":
        IPD, ip = PRD if statedep(m) else K, [list(r) for r in pn] if statedep(m) else [[1] * K for _ in range(N)]
    else:
        IPD = rng.choice([d for d in (4, 8, 10) if d >= K])
        ip = [rand_comp(rng, IPD, K) for _ in range(N)]
    force = True if iface == "class" else rng.random() < 0.5
    dtype = "f64" if (iface == "class" or limit is not None or rng.random() < 0.85) else "f32"
    check = True if (iface == "class" or limit is not None) else rng.random() < 0.95
    # iteration budget: mostly ample; sometimes so small that the run normally ends WITHOUT reporting convergence
    budget = NMAIN if (limit is not None or rng.random() < 0.8) else rng.choice([1, 2, 3])
    pre = []
    if iface == "class" and rng.random() < 0.5:
        # call history: the same planner object first plans on another MDP (same shape with other action sets, or
        # another number of states), then on this one
        N2 = N if (wform == "vector" or rng.random() < 0.6) else (N + 1 if N < 6 else N - 1)
        ma = rand_instance(rng, N2, K, m["PD"], 1, 2, 1)
        if K >= 2:
            while True:
                av = [[1 if rng.random() < 0.6 else 0 for _ in range(K)] for _ in range(N2)]
                if all(any(r) for r in av) and (N2 != N or av != m["avail"]):
                    break
            ma["avail"] = av
        pre = [ma]
    again = None
    if iface == "class" and rng.random() < 0.4:
        # call history on the SAME MDP object: the planner first plans under another configuration, which is then
        # changed in place (planner.entropy_weight / planner.policy_prior / mdp.discount_rate) before the judged call
        kind = rng.choice(["weight", "weight", "discount"] + (["prior"] if K >= 2 else []))
        again = {"change": kind, "weight": rng.choice([0.37, 2.5]), "discount": rng.choice([0.3, 0.6]),
                 "prior": rand_comp(rng, 10, K) if K >= 2 else [10]}
    cfg = {"iface": iface, "shape": shape, "pre": pre, "again": again, "pform": pform, "PRD": PRD, "pn": pn, "wform": wform, "lam": [list(x) for x in lam],
           "iform": iform, "IPD": IPD, "ip": ip, "force": force, "dtype": dtype, "check": check, "budget": budget,
           "rep": dict(REPS[rng.randrange(len(REPS))]) if iface == "class" else None,
           "limit": limit is not None}
    return {"m": m, "cfg": cfg}


def clamp_case(N, K, avail, P, PD, R, GN, GD, lam):
    m = {"N": N, "K": K, "PD": PD, "GN": GN, "GD": GD, "ID": 1, "abs": [0] * N, "avail": avail, "P": P, "R": R,
         "p0": [1] + [0] * (N - 1)}
    pn = [[(12 // sum(row)) * x for x in row] for row in avail]
    cfg = {"iface": "class", "shape": "full", "pform": "none", "PRD": 12, "pn": pn, "wform": "float",
           "lam": [list(lam)] * N, "iform": "none", "IPD": 12, "ip": [list(r) for r in pn], "force": True,
           "dtype": "f64", "check": True, "budget": NMAIN, "rep": dict(REPS[0]), "limit": False, "pre": [], "again": None}
    return {"m": m, "cfg": cfg}


# the wrapper on state-dependent action sets with action values below -700 lambda (small weight, negative rewards)
CLAMP_CASES = [
    clamp_case(2, 2, [[1, 0], [1, 1]], [[[1, 1], [2, 0]], [[2, 0], [0, 2]]], 2,
               [[[-2, -2], [0, 0]], [[-2, -2], [-2, -2]]], 1, 2, (1, 1000)),
    clamp_case(3, 2, [[1, 1], [0, 1], [1, 0]], [[[0, 2, 0], [0, 0, 2]], [[2, 0, 0], [1, 1, 0]], [[0, 1, 1], [2, 0, 0]]], 2,
               [[[-1, -1, -1], [-3, -3, -3]], [[0, 0, 0], [-4, -4, -4]], [[-2, -2, -2], [0, 0, 0]]], 9, 10, (1, 100)),
]


def tie_case(rng, iface):
    """A state whose actions are exactly tied under the evaluation of the initial (uniform) policy but not at the
    soft fixed point: its actions lead to 'gadget' states whose self-looping actions pay rewards of zero mean and
    different spread (value 0 under the uniform policy, lambda ln mean exp(r / lambda) / (1 - gamma) at the solution).
    An implementation that stops updating a row once it has not moved reports convergence with that row stale."""
    K = rng.choice([2, 2, 3, 4])
    G = rng.choice([2, min(K, 3)]) if K > 2 else 2
    N = rng.randint(1 + G, min(6, 3 + G))
    PD = rng.choice([2, 4])
    GN, GD = rng.choice([(1, 2), (3, 4), (9, 10)])
    pat = {2: [1, -1], 3: [1, 0, -1], 4: [1, 1, -1, -1]}[K]
    perm = list(range(N))
    rng.shuffle(perm)
    s0, gad = perm[0], perm[1:1 + G]
    r0 = rng.randint(-1, 1)
    m = rand_instance(rng, N, K, PD, GN, GD, 2)
    for a in range(K):
        g = gad[a % G]
        m["P"][s0][a] = [PD if t == g else 0 for t in range(N)]
        m["R"][s0][a] = [r0] * N
    scale = rng.sample([1, 2, 3], G)
    for i, g in enumerate(gad):
        for a in range(K):
            m["P"][g][a] = [PD if t == g else 0 for t in range(N)]
            m["R"][g][a] = [scale[i] * pat[a]] * N
    # (the remaining states keep their random rows: nothing leads from the tie state or the gadgets to them)
    lam = [list(rng.choice([(1, 2), (1, 1), (2, 1)]))] * N
    cfg = {"iface": iface, "shape": "full", "pform": "none", "PRD": K, "pn": [[1] * K for _ in range(N)],
           "wform": rng.choice(["float", "tensor1"]), "lam": lam, "iform": "none", "IPD": K, "ip": [[1] * K for _ in range(N)],
           "force": True if iface == "class" else rng.random() < 0.5, "dtype": "f64", "check": True, "budget": NMAIN,
           "rep": dict(REPS[rng.randrange(len(REPS))]) if iface == "class" else None, "limit": False, "pre": [],
           "again": None, "tie": 1}
    return {"m": m, "cfg": cfg}


def make_cases(rng, n, n_limit):
    cases = [make_case(rng, i) for i in range(n)] + [dict(m=dict(c["m"]), cfg=dict(c["cfg"])) for c in CLAMP_CASES]
    k = 0
    while k < max(8, n // 25):
        case = tie_case(rng, "class" if k % 4 == 3 else "function")
        c = case["cfg"]
        if magnitude_fine(case["m"], c["lam"], c["PRD"], 1):
            cases.append(case)
            k += 1
    # decreasing-weight families on oracle-sized instances with a uniform prior
    k = 0
    while k < n_limit:
        N = rng.choice([2, 2, 3])
        K = rng.choice([2, 2, 3, 4])
        GN, GD = rng.choice([(1, 2), (3, 4), (9, 10)])
        PD = rng.choice([2, 4])
        m = rand_instance(rng, N, K, PD, GN, GD, rng.choice([1, 2, 3]))
        if not gen.magnitude_ok(m, QD=1):
            continue
        for w in LIMIT_SEQ:
            cases.append(make_case(rng, 0, limit=(m, w)))
        k += 1
    return cases


def oracle_sized(m):
    return m["N"] <= 3 and gen.magnitude_ok(m, QD=1)


def mc_sized(m):
    return m["N"] <= 3 and m["K"] <= 4 and gen.magnitude_ok(m, QD=12)


# --------------------------------------------------------------------------------------------
# running the real code
# --------------------------------------------------------------------------------------------
def _torch():
    """torch with one intra-op thread: the tensors have at most 6 x 4 x 6 entries, and the thread pool makes the
    thousands of tiny calls of a run several hundred times slower on a busy machine."""
    import torch
    if not getattr(_torch, "done", False):
        torch.set_num_threads(1)
        _torch.done = True
    return torch


def _tensors(case):
    import numpy as np
    torch = _torch()
    m, c = case["m"], case["cfg"]
    N, K = m["N"], m["K"]
    dt = torch.float64 if c["dtype"] == "f64" else torch.float32
    tf = torch.tensor(np.array(m["P"], dtype=np.float64) / m["PD"], dtype=dt)
    R = np.array(m["R"], dtype=np.float64)
    sh = c["shape"]
    if sh == "ns":
        R = R[:1, :1, :]
    elif sh == "s":
        R = R[:, :1, :1]
    elif sh == "sa":
        R = R[:, :, :1]
    elif sh == "a":
        R = R[:1, :, :1]
    rf = torch.tensor(R, dtype=dt)
    prior = None
    if c["pform"] == "shared":
        prior = torch.tensor(np.array([c["pn"][0]], dtype=np.float64) / c["PRD"], dtype=dt)
    elif c["pform"] == "perstate":
        prior = torch.tensor(np.array(c["pn"], dtype=np.float64) / c["PRD"], dtype=dt)
    init = None
    if c["iform"] == "given":
        init = torch.tensor(np.array(c["ip"], dtype=np.float64) / c["IPD"], dtype=dt)
    lam = [n / d for n, d in c["lam"]]
    if c["wform"] == "float":
        ew = float(lam[0])
    elif c["wform"] == "int":
        ew = int(c["lam"][0][0])
    elif c["wform"] == "tensor1":
        ew = torch.tensor([lam[0]], dtype=dt)
    else:
        ew = torch.tensor(lam, dtype=dt)
    return tf, rf, prior, init, ew


class Runner:
    """Runs one case with a given iteration budget and projects the result to abstract indices (floats)."""

    def __init__(self, case):
        self.case = case
        m, c = case["m"], case["cfg"]
        self.N, self.K = m["N"], m["K"]
        self.calls = 0
        if c["iface"] == "function":
            self.args = _tensors(case)
        else:
            torch = _torch()
            rep = dict(c["rep"])
            self.b = build.build_mdp(m, rng=random.Random(digest(case)), explicit_list=True, **rep)
            mdp = self.b.mdp
            self.sl = list(mdp.state_list)
            self.al = list(mdp.action_list)
            self.spos = [self.sl.index(self.b.slabel[s]) for s in range(self.N)]   # abstract -> position
            self.apos = [self.al.index(self.b.alabel[a]) for a in range(self.K)]
            lam = [n / d for n, d in c["lam"]]
            if c["wform"] == "float":
                self.ew = float(lam[0])
            elif c["wform"] == "int":
                self.ew = int(c["lam"][0][0])
            elif c["wform"] == "tensor1":
                self.ew = torch.tensor([lam[0]], dtype=torch.float64)
            else:
                v = [0.0] * self.N
                for s in range(self.N):
                    v[self.spos[s]] = lam[s]
                self.ew = torch.tensor(v, dtype=torch.float64)
            self.pre = [build.build_mdp(pm, rng=random.Random(digest(pm)), explicit_list=True, **rep).mdp
                        for pm in c.get("pre", [])]
            self.prior = None
            if c["pform"] == "shared":
                row = [0.0] * self.K
                for a in range(self.K):
                    row[self.apos[a]] = c["pn"][0][a] / c["PRD"]
                self.prior = torch.tensor([row], dtype=torch.float64)

    def run(self, n):
        """-> dict(pi, q, v (nested float lists in abstract order), conv, its)."""
        self.calls += 1
        c = self.case["cfg"]
        N, K = self.N, self.K
        g = self.case["m"]["GN"] / self.case["m"]["GD"]
        with warnings.catch_warnings():
            warnings.simplefilter("ignore")
            if c["iface"] == "function":
                from msdm.algorithms.entregpolicyiteration import entropy_regularized_policy_iteration
                tf, rf, prior, init, ew = self.args
                r = entropy_regularized_policy_iteration(
                    transition_matrix=tf, reward_matrix=rf, discount_rate=g, entropy_weight=ew,
                    n_planning_iters=n, policy_prior=prior, initial_policy=init,
                    check_convergence=c["check"], force_nonzero_probabilities=c["force"])
                pi = r.policy.detach().double().tolist()
                q = r.action_values.detach().double().tolist()
                v = r.state_values.detach().double().tolist()
                return {"pi": pi, "q": q, "v": v, "conv": bool(r.converged), "its": int(r.iterations)}
            from msdm.algorithms.entregpolicyiteration import EntropyRegularizedPolicyIteration
            planner = EntropyRegularizedPolicyIteration(iterations=n, entropy_weight=self.ew, policy_prior=self.prior)
            for earlier in self.pre:
                planner.plan_on(earlier)            # same planner object, another MDP; its result is not judged here
                self.calls += 1
            ag = c.get("again")
            if ag:
                # same planner object, same MDP object, stale configuration first; then the configuration is set in
                # place to the one of this case and the planner is asked again
                torch = _torch()
                mdp = self.b.mdp
                g0 = mdp.discount_rate
                if ag["change"] == "weight":
                    planner.entropy_weight = float(ag["weight"])
                elif ag["change"] == "prior":
                    row = [0.0] * K
                    for a in range(K):
                        row[self.apos[a]] = ag["prior"][a] / 10
                    planner.policy_prior = torch.tensor([row], dtype=torch.float64)
                else:
                    mdp.discount_rate = float(ag["discount"])
                try:
                    planner.plan_on(mdp)
                    self.calls += 1
                finally:
                    planner.entropy_weight, planner.policy_prior, mdp.discount_rate = self.ew, self.prior, g0
            res = planner.plan_on(self.b.mdp)
            pi, q, v = [], [], []
            for s in range(N):
                sl = self.b.slabel[s]
                ad = res.policy.action_dist(sl)
                pi.append([float(ad.prob(self.b.alabel[a])) for a in range(K)])
                q.append([float(res.Q[sl][self.b.alabel[a]]) for a in range(K)])
                v.append(float(res.V[sl]))
            return {"pi": pi, "q": q, "v": v, "conv": bool(res.converged), "its": int(res.iterations)}


def q20(x):
    if x != x or x in (float("inf"), float("-inf")):
        return LIM if x > 0 else -LIM
    y = int(round(x * U))
    return max(-LIM, min(LIM, y))


def log_ratio(p, prior):
    """THE trusted elementary function: one math.log of a positive float per logged entry."""
    if p <= 0.0:
        return LZERO * U
    r = p / prior
    if r <= 0.0:
        return LZERO * U
    return max(LZERO * U, q20(math.log(r)))


def fine40(x):
    return round(F(x) * 2 ** 40)


def event(case, pi, qv, fine=False):
    c = case["cfg"]
    N, K = case["m"]["N"], case["m"]["K"]
    e = {"pi": [[q20(pi[s][a]) for a in range(K)] for s in range(N)],
         "L": [[log_ratio(pi[s][a], c["pn"][s][a] / c["PRD"]) if c["pn"][s][a] > 0 else LZERO * U
                for a in range(K)] for s in range(N)]}
    e["fine"] = 0
    if qv is None:
        e.update(hq=0, q=[], v=[])
    else:
        e.update(hq=1, q=[[q20(x) for x in row] for row in qv[0]], v=[q20(x) for x in qv[1]])
        if fine and all(abs(x) < 256 for row in qv[0] for x in row) and all(abs(x) < 256 for x in qv[1]):
            # the returned q, v in units of 2^-40, two limbs (exact: a float is a dyadic rational)
            qf = [[fine40(x) for x in row] for row in qv[0]]
            vf = [fine40(x) for x in qv[1]]
            e.update(fine=1, qh=[[x >> 20 for x in row] for row in qf], ql=[[x & (U - 1) for x in row] for row in qf],
                     vh=[x >> 20 for x in vf], vl=[x & (U - 1) for x in vf])
    return e


def record_trace(case, corrupt=None):
    """Run the real code (main run + prefix runs) and build the trace record handed to TLC.

    corrupt(j, out) may modify the projected float results of the run with budget j (selftest only)."""
    m, c = case["m"], case["cfg"]
    N, K = m["N"], m["K"]
    rn = Runner(case)

    def run(n):
        out = rn.run(n)
        if corrupt is not None:
            corrupt(n, out)
        return out
    main = run(c.get("budget", NMAIN))
    conv, cits = main["conv"], main["its"]
    pi0 = [[c["ip"][s][a] / c["IPD"] for a in range(K)] for s in range(N)]
    last = cits if conv else min(cits + 1, MAXEV)        # index of the last logged iterate
    first = max(0, last - MAXEV) if conv else 0
    # iterate j: pi_j from the run with budget j (pi_0 = configured), (q_j, v_j) from the run with budget j + 1
    runs = {}

    def get(n):
        if n not in runs:
            runs[n] = main if (conv and n == cits + 1) else run(n)
        return runs[n]
    evs = []
    notes = set()
    for j in range(first, last + 1):
        pi = pi0 if j == 0 else get(j)["pi"]
        if conv or j < last:
            nxt = get(j + 1)
            qv = (nxt["q"], nxt["v"])
            if j == last and conv:
                if not nxt["conv"] or nxt["its"] != cits:
                    notes.add("prefix-run-disagrees-with-main-run")
                if j > 0 and nxt["pi"] != pi:
                    notes.add("prefix-runs-not-deterministic")
                pi = nxt["pi"]
            elif nxt["conv"]:
                notes.add("prefix-run-converged-early")
        else:
            qv = None
        evs.append(event(case, pi, qv, fine=(j == last and conv and c["dtype"] == "f64")))
    T = {k: m[k] for k in INST_KEYS}
    T.update(LN=[x[0] for x in c["lam"]], LD=[x[1] for x in c["lam"]], PRD=c["PRD"], pn=c["pn"],
             IPD=c["IPD"], ip=c["ip"],
             unif=1 if all(x * sum(m["avail"][s]) == c["PRD"] for s, r in enumerate(c["pn"]) for x in r if x > 0) else 0,
             f32=1 if c["dtype"] == "f32" else 0, ev=evs, conv=1 if conv else 0, its=cits - first,
             orc=1 if (oracle_sized(m) and c["dtype"] == "f64") else 0, tail=1 if first > 0 else 0,
             pre=[{"N": pm["N"], "K": pm["K"], "same": 0} for pm in c.get("pre", [])]
                 + ([{"N": N, "K": K, "same": 1}] if c.get("again") else []))
    if first > 0:
        T["ip"], T["IPD"] = [[1] * K for _ in range(N)], K     # unused: Start of a tail is not compared
    return T, {"main": main, "calls": rn.calls, "notes": sorted(notes), "first": first}


# --------------------------------------------------------------------------------------------
# independent re-computation of the numbers TLC reports (machinery cross-check, plain big integers)
# --------------------------------------------------------------------------------------------
def _muldivsat(x, n, d):
    y = (x * n) // d
    if n > d:
        c = LIM // (n // d + 1)
        if x > c:
            return LIM
        if x < -c:
            return -LIM
    return y


def py_report(T):
    e = T["ev"][-1]
    N, K = T["N"], T["K"]
    if any(abs(x) >= 2 ** 28 for x in e["v"]):
        return {"mag": 0}
    lam = [(T["LN"][s], T["LD"][s]) for s in range(N)]
    av = T["avail"]
    if any(abs(e["q"][s][a]) >= 2 ** 28 for s in range(N) for a in range(K) if av[s][a]):
        return {"mag": 0}
    look = [[0 if not av[s][a] else
             e["q"][s][a] - ((U * sum(T["P"][s][a][t] * T["R"][s][a][t] for t in range(N))) // T["PD"]
                              + sum((e["v"][t] * T["P"][s][a][t] * T["GN"]) // (T["PD"] * T["GD"]) for t in range(N)))
             for a in range(K)] for s in range(N)]
    d = [[0 if not av[s][a] else _muldivsat(e["L"][s][a], *lam[s]) - (e["q"][s][a] - e["v"][s])
          for a in range(K)] for s in range(N)]
    delta = [1 + sum((((abs(d[s][a]) // 32768) + 1) * (12 + ((e["pi"][s][a] + 1) * 11) // 1024)) // 32768 + 1
                     for a in range(K) if av[s][a]) for s in range(N)]
    ev = []
    for s in range(N):
        live = [a for a in range(K) if av[s][a] and 0 < e["pi"][s][a] <= U]
        a1 = sum((e["pi"][s][a] * (e["q"][s][a] - e["v"][s])) >> 20 for a in live)
        a2 = sum((e["pi"][s][a] * e["L"][s][a]) >> 20 for a in live)
        ev.append(a1 - _muldivsat(a2, *lam[s]))
    out = {"mag": 1, "look": look, "d": d, "delta": delta, "evalres": ev}
    if T["f32"] == 0 and e.get("fine") == 1:
        D = T["PD"] * T["GD"]
        fr = []
        for s in range(N):
            row = []
            for a in range(K):
                if not av[s][a]:
                    row.append(0)
                    continue
                qf = e["qh"][s][a] * U + e["ql"][s][a]
                E = qf * D - sum(T["P"][s][a][t] * T["R"][s][a][t] for t in range(N)) * T["GD"] * 2 ** 40 \
                    - sum(T["P"][s][a][t] * T["GN"] * (e["vh"][t] * U + e["vl"][t]) for t in range(N))
                row.append(E if abs(E) < 90 * U else (LIM if E > 0 else -LIM))
            fr.append(row)
        out["fine"] = fr
    if T["orc"] == 1 and T["unif"] == 1:
        vs = pyoracle.optimal_value(T)
        out["qstar"] = [[math.floor(pyoracle.q_from_v(T, vs, s, a) * U) if av[s][a] else 0 for a in range(K)]
                        for s in range(N)]
        s = max(range(N), key=lambda x: F(*lam[x]))
        t1 = (U * LOG_UB[K - 1]) // 10000 + 1
        out["limitb"] = (t1 * lam[s][0] * T["GN"]) // (lam[s][1] * (T["GD"] - T["GN"])) + 1
    return out


def crosscheck(T, rep, tag):
    mine = py_report(T)
    for k, v in mine.items():
        got = rep.get(k)
        if k == "fine":
            # TLC saturates at +-LIM beyond 100 * 2^20; below 90 * 2^20 the two must agree exactly
            ok = all((g == w) or (abs(w) == LIM and abs(g) >= 90 * U and (g > 0) == (w > 0))
                     for gr, wr in zip(got, v) for g, w in zip(gr, wr))
            if not ok:
                raise TLCFailure(f"fine look-ahead residuals disagree on {tag}: TLC {got} vs Python {v}")
            continue
        if got != v:
            raise TLCFailure(f"TLA+ arithmetic and the independent Python re-computation disagree on {tag} field {k}: "
                             f"TLC {got} vs Python {v}")


# --------------------------------------------------------------------------------------------
# judging
# --------------------------------------------------------------------------------------------
SITE = {"function": "entropy_regularized_policy_iteration", "class": "EntropyRegularizedPolicyIteration.plan_on"}
DRIFT_FLAGS = {"initial-policy-differs-from-configured", "iterate-policy-not-normalised", "iterate-lookahead",
               "iterate-evaluation-identity", "iterate-improvement-step", "reported-iteration-count-differs",
               "iterate-magnitude-outside-arithmetic"}


def shape_of(c):
    return (f"weight={c['wform']},prior={c['pform']},dtype={c['dtype']}" + (",planner-reused" if c.get("pre") else "")
            + (f",replanned-same-mdp-after-{c['again']['change']}-change" if c.get("again") else ""))


CLAMP_SIG = "C19:EntropyRegularizedPolicyIteration.plan_on:unavailable-action-competes-through-clamped-zero-prior"


def full_shape(c):
    return (f"weight={c['wform']},prior={c['pform']},init={c['iform']},force={int(c['force'])},dtype={c['dtype']},"
            f"reward={c['shape']},budget={c.get('budget', NMAIN)}"
            + (f",planner-first-used-on-{[(pm['N'], pm['K']) for pm in c['pre']]}" if c.get("pre") else ""))


MAX_REPORTS = 30            # at most this many VIOLATION reports per run of the check (the rest is counted)


def report(ctx, sig, what, case):
    n = ctx.extra.get("violation_reports", 0)
    if n >= MAX_REPORTS and not ctx.selftest:
        ctx.count("violations_beyond_report_cap")
        ctx.violations.append((sig, what, None))
        return
    ctx.extra["violation_reports"] = n + 1
    ctx.violation(sig, what, case)


def judge_cases(ctx, cases, *, corrupt=None, drop_event=None, label="trace", coverage=False):
    """Record the traces of `cases` from the real code and let TLC validate them.  Returns the TLC records."""
    batch, infos, idx = [], [], []
    for i, case in enumerate(cases):
        c = case["cfg"]
        site = SITE[c["iface"]]
        try:
            T, info = record_trace(case, corrupt=(corrupt.get(i) if corrupt else None))
        except Exception as ex:                                         # noqa: BLE001 - in-quantifier input
            ctx.evaluations += 1
            report(ctx, f"C19:{site}:raises/{shape_of(c)}",
                   f"{site} raised {type(ex).__name__}: {str(ex)[:200]} on an input inside the quantifier "
                   f"({full_shape(c)})", {"case": case, "clause": "raises"})
            continue
        ctx.evaluations += info["calls"]
        if drop_event is not None and drop_event[0] == i and len(T["ev"]) > drop_event[1] + 1:
            del T["ev"][drop_event[1]]
        batch.append(T)
        infos.append(info)
        idx.append(i)
    if not batch:
        return []
    res = run_tlc(ctx.workdir / label, MODULE, CFG_TRACE, files={"batch.json": batch},
                  env={"BATCH_FILE": "batch.json", "MODE": "trace"}, coverage=coverage)
    ctx.add_tlc(res, "trace: Start / Evaluate / Improve / Converge / Cap over the recorded iterates of the real runs")
    if "InstancesOK" in res.violated:
        raise TLCFailure("instance filter InstancesOK violated by a generated case\n" + (res.traces[0][:2000] if res.traces else ""))
    by = {r["tid"]: r for r in res.records}
    for k, (T, info, i) in enumerate(zip(batch, infos, idx), start=1):
        case = cases[i]
        c = case["cfg"]
        site = SITE[c["iface"]]
        r = by.get(k)
        if r is None:
            raise TLCFailure(f"no verdict for trace {k} (the trace machine deadlocked before a terminal phase)")
        flags = set(r["flags"])
        # per-action counts of the trace machine (vacuity evidence; TLC's own -coverage option exhausts the heap on
        # the deserialised batch): a trace that ended at event l took 1 Start, l - 1 Improve, and one Evaluate per
        # event that carries q and v
        ac = ctx.extra.setdefault("trace_action_counts", {"Start": 0, "Evaluate": 0, "Improve": 0, "Converge": 0, "Cap": 0})
        ac["Start"] += 1
        ac["Improve"] += r["l"] - 1
        ac["Evaluate"] += sum(1 for e in T["ev"][:r["l"]] if e["hq"] == 1)
        ac["Converge" if r["phase"] == "converged" else "Cap"] += 1
        if "recorder-log-inconsistent" in flags:
            raise TLCFailure(f"trace {k}: the logged logarithms are not consistent with the logged policy (recorder bug)")
        unknown = flags - DRIFT_FLAGS
        if unknown:
            raise TLCFailure(f"unknown flags {unknown}")
        if r.get("clamp"):
            # the intermediate iterates of such a run show the same defect (mass on the unavailable action): it is
            # reported once, under the defect's signature, from the returned iterate
            ctx.count("iterate_flags_inside_clamp_region_runs", len(flags))
            flags = set()
        for f in sorted(flags) + info["notes"]:
            ctx.drift(f, {"case": digest(case), "site": site, "shape": shape_of(c)})
        if r["phase"] == "capped":
            ctx.count("runs_not_reporting_convergence")
            if not c["check"]:
                ctx.count("runs_with_check_convergence_off")
            if not flags and not info["notes"]:
                ctx.validated += 1          # every logged iterate was explained by Start / Evaluate / Improve
            continue
        ctx.count("runs_reporting_convergence")
        ctx.count(f"converged_{c['iface']}_{c['dtype']}")
        if c.get("pre"):
            ctx.count("converged_on_a_reused_planner_object")
        if c.get("again"):
            ctx.count("converged_on_a_replanned_same_mdp_object")
        if c.get("tie"):
            ctx.count("converged_with_a_row_tied_under_the_initial_policy")
        if r["rep"].get("fine"):
            ctx.count("fine_lookahead_judged")
        if (k % 3 == 0 or c["limit"]) and r["rep"].get("mag") == 1:
            crosscheck(T, r["rep"], f"trace {k}")
            ctx.count("arithmetic_crosschecks")
            if "qstar" in r["rep"] and r["rep"]["qstar"]:
                ctx.count("oracle_crosschecks")
        if c["dtype"] == "f32":
            ctx.skip("float32 run: only the look-ahead and normalisation clauses are judged")
        seen = set()
        for f in r["fails"]:
            key = f["c"]
            if key in seen:
                continue
            seen.add(key)
            if r.get("clamp"):
                # signature predicate computed by the spec (ClampStates): a state with state-dependent actions whose
                # available action values are all below -690 lambda
                report(ctx, CLAMP_SIG,
                       f"{site} on an MDP with state-dependent action sets: with action values below -700 * entropy "
                       f"weight the unavailable action (prior clamped to the smallest float instead of 0) takes "
                       f"probability mass and the values are not the soft fixed point over the available actions "
                       f"({f['c']} at state {f['s'] - 1} action {f['a'] - 1}; states {sorted(x - 1 for x in r['clamp'])})",
                       {"case": case, "clause": f["c"], "fail": f})
                break
            report(ctx, f"C19:{site}:{f['c']}/{shape_of(c)}",
                   f"{site} reported convergence but {f['c']} at state {f['s'] - 1} action {f['a'] - 1} "
                   f"(residual {f['got']} units of 2^-20, tolerance {f['tol']}; {full_shape(c)})",
                   {"case": case, "clause": f["c"], "fail": f})
        if not r["fails"] and not flags and not info["notes"]:
            ctx.validated += 1
        # evidence
        e = T["ev"][-1]
        rep = r["rep"]
        if rep.get("mag") == 1 and c["dtype"] == "f64":
            judged = [(s, a) for s in range(T["N"]) for a in range(T["K"]) if e["pi"][s][a] >= 2 and T["avail"][s][a]]
            if statedep(T):
                ctx.count("converged_with_state_dependent_action_sets")
            spread = any(len({e["q"][s][a] // 1024 for (s2, a) in judged if s2 == s}) >= 2 for s in range(T["N"]))
            if T["K"] >= 2 and spread:
                ctx.nontrivial(digest(case))
            ctx.count("entries_judged_two_sided", len(judged))
            ctx.count("entries_judged_one_sided", sum(map(sum, T["avail"])) - len(judged))
            if c["limit"] and rep.get("qstar"):
                dist = max(abs(rep["qstar"][s][a] - e["q"][s][a]) for s in range(T["N"]) for a in range(T["K"]))
                lst = ctx.extra.setdefault("limit_distances_units", [])
                if len(lst) < 40:
                    lst.append({"inst": digest(case["m"]), "weight": c["lam"][0], "dist": dist, "bound": rep["limitb"]})
                ctx.count("limit_clause_judged")
        ctx.sample({"instance": {k2: case["m"][k2] for k2 in ("N", "K", "PD", "GN", "GD", "P", "R")}, "cfg": c,
                    "real": {"converged": info["main"]["conv"], "iterations": info["main"]["its"],
                             "policy": info["main"]["pi"], "Q": info["main"]["q"], "V": info["main"]["v"]},
                    "tlc": {"phase": r["phase"], "fails": r["fails"], "flags": sorted(flags)}})
    return res.records


def run_mc(ctx, cases, budget, coverage=False, label="mc"):
    """budget = total number of initial supports ((2^K - 1)^N per instance) explored."""
    seen, batch, starts = set(), [], 0
    for case in cases:
        m = case["m"]
        if not mc_sized(m) or digest(m) in seen:
            continue
        n0 = (2 ** m["K"] - 1) ** m["N"]
        if starts + n0 > budget:
            continue
        starts += n0
        seen.add(digest(m))
        T = {k: m[k] for k in INST_KEYS}
        K, N = m["K"], m["N"]
        if statedep(m):
            T.update(PRD=12, pn=[[(12 // sum(row)) * x for x in row] for row in m["avail"]])
        else:
            T.update(PRD=K, pn=[[1] * K for _ in range(N)])
        T.update(LN=[1] * N, LD=[1] * N, unif=1, tail=0)
        batch.append(T)
    if not batch:
        return
    res = run_tlc(ctx.workdir / label, MODULE, CFG_MC, files={"batch.json": batch},
                  env={"BATCH_FILE": "batch.json", "MODE": "mc"}, coverage=coverage)
    ctx.add_tlc(res, "mc: zero-temperature limit of the loop from every initial support")
    bad = [v for v in res.violated if v in DESIGN_INVS]
    if bad:
        raise TLCFailure(f"design-level invariant violated in {MODULE}: {sorted(set(bad))}\n"
                         + (res.traces[0][:3000] if res.traces else ""))
    ctx.count("mc_instances", len(batch))
    # the values TLC reached against the independent Fraction oracle
    for r in res.records:
        T = batch[r["tid"] - 1]
        pv = pyoracle.optimal_value(T)
        for s in range(T["N"]):
            if build.frac(r["v"][s]) != pv[s]:
                raise TLCFailure(f"zero-temperature machine and Python oracle disagree: {r['v']} vs {pv}")
        ctx.count("mc_oracle_crosschecks")


def check_log_tables():
    for n in range(1, 17):
        x = math.log(n) * 10000
        if not (LOG_LB[n - 1] <= x <= LOG_UB[n - 1]):
            raise TLCFailure(f"rational bounds of ln {n} are wrong")
    if not math.log(1.52 * 2.0 ** -20) * 10000 <= -134400:
        raise TLCFailure("bound of ln(1.52 * 2^-20) is wrong")


def run(ctx):
    check_log_tables()
    rng = random.Random(ctx.seed * 7919 + 19)
    n, nl = (450, 30) if ctx.tier == "quick" else (8000, 400)
    ctx.rule = ("random (instance, configuration): 2-6 states, 1-4 actions, no absorbing states, rows = compositions of "
                "PD in {2,3,4,5,10} with zero entries, integer rewards |r| <= 4 in 5 broadcast shapes, gamma in "
                "{1/10,1/2,3/4,9/10,99/100}, entropy weight in {1/1000..10} as float / int / 1-tensor / per-state vector, "
                "prior default / shared / per-state on the open simplex, default / given initial policy, forced non-zero "
                "on/off, float64/float32, function and class interface; plus decreasing-weight families "
                "(1, 1/10, 1/100, 1/1000) on oracle-sized instances with a uniform prior.  non-trivial = a float64 run "
                "that reported convergence with >= 2 actions and a state whose two-sided judged entries have action "
                "values differing by more than 2^-10")
    ctx.assumptions = [
        "math.log of a positive float, one call per logged policy entry (L = log(returned pi / given prior)); TLC brackets "
        "it by 1 - 1/x <= ln x <= x - 1 and requires it to be ordered like pi/prior",
        "rational bounds of ln 1..16 and of ln(1.52 * 2^-20) (re-derived with the same math.log at start-up)",
        "tolerances are derived from torch.isclose's defaults rtol = 1e-5, atol = 1e-8 (the convergence test of the code), "
        "the quantisation to 1/2^20 and the float32 storage of a scalar entropy weight (relative 2^-24)",
        "float64 rounding inside msdm (<= 1e-10 for |values| <= 256, <= 6 states, cond(I - gamma P) <= 199) is below one "
        "unit of 2^-20; float32 runs are judged on the look-ahead and normalisation clauses only",
        "TLC evaluates the TLA+ arithmetic correctly (every third converged trace and every limit case is re-computed "
        "with plain Python integers / Fractions; the optimal values against harness/pyoracle.py)",
    ]
    cases = make_cases(rng, n, nl)
    run_mc(ctx, cases, 5000 if ctx.tier == "quick" else 80000)
    chunk = 600
    for k in range(0, len(cases), chunk):
        judge_cases(ctx, cases[k:k + chunk], label=f"trace{k}")


def replay(ctx, case):
    check_log_tables()
    judge_cases(ctx, [case["case"]], label="replay")


def selftest(ctx):
    """Binding demonstration: corrupt a value returned by the real code (action value, state value, policy) and
    drop one recorded iterate; every corruption must be reported (violation, or drift for an intermediate iterate)."""
    check_log_tables()
    rng = random.Random(11)
    cases = [c for c in make_cases(rng, 60, 0) if c["cfg"]["dtype"] == "f64" and c["cfg"]["check"] and c["m"]["K"] >= 2][:12]
    ok = True

    def bump_q(n, out):
        if out["conv"]:
            out["q"][0][0] += 0.01

    def bump_v(n, out):
        if out["conv"]:
            out["v"][0] -= 0.01

    def swap_pi(n, out):
        if out["conv"]:
            row = out["pi"][0]
            i, j = max(range(len(row)), key=lambda a: row[a]), min(range(len(row)), key=lambda a: row[a])
            if row[i] - row[j] > 1e-3:
                row[i], row[j] = row[j] + 0.3 * (row[i] - row[j]), row[i] - 0.3 * (row[i] - row[j])
    for name, fn in (("action value", bump_q), ("state value", bump_v), ("policy", swap_pi)):
        before = len(ctx.violations)
        judge_cases(ctx, cases, corrupt={i: fn for i in range(len(cases))}, label=f"self-{name.split()[0]}")
        found = len(ctx.violations) - before
        print(f"  corrupted {name}: {found} violations reported")
        ok = ok and found > 0
    # drop one intermediate iterate: the improvement step no longer matches -> drift
    before = len(ctx.drifts)
    long = []
    for i, c in enumerate(cases):
        T, _ = record_trace(c)
        if T["conv"] == 1 and len(T["ev"]) >= 4:
            long.append(i)
    if long:
        judge_cases(ctx, cases, drop_event=(long[0], 1), label="self-drop")
        found = len(ctx.drifts) - before
        print(f"  dropped iterate 1 of case {long[0]}: {found} drift reports")
        ok = ok and found > 0
    else:
        ok = False
    return ok
