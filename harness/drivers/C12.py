"""C12 - tables index like nested dictionaries over their field domains.

Pipeline A, one implementation test per transition of the TLA+ state graph:
  tables (field domains over atoms and tuples of atoms, collision-rich) -> TLC explores
  spec/C12_Table.tla (views x selector menu, chains of length <= L), checks the design invariants
  and emits, for every reachable view, the expected result of every selector of the menu
  (oracle O = nested-dictionary meaning; reference machine R = array-index machine with the
  exception family) -> the same tables are built in msdm as Table, ProbabilityTable
  (TableDistribution rows), StateTable, StateActionTable, StateActionNextStateTable and
  TabularPolicy under several label representations, the chain is replayed on the real objects
  and every transition is executed with the real __getitem__ / get / keys / items / len /
  action_dist and compared: result kind, index domains, every cell, error / error class.
Verdicts: selectors whose meaning the statement fixes are judged against O (VIOLATION); everything
else (partial slices, two lists, whole-domain components, exception families, field names, result
classes) is judged against R at DRIFT level only.
"""
import hashlib
import json
import random
import warnings

import numpy as np

from ..core import digest
from ..tlc import run_tlc, TLCFailure

MODULE = "C12_Table"
# Judge = emission + the four per-transition properties evaluated once per transition; the same four
# properties are also listed one by one for the first batch (templates) of the thorough tier
STATE_INVS = ["TypeOK", "ViewDenotesCells", "FullKeyIsCell", "NestedIsCell", "SliceIsIdentity"]
TRANS_INVS = ["RefinesOracle", "OuterElementWins", "ListRestricts", "ForeignIsError"]
DESIGN_INVS = ["Judge"] + STATE_INVS + TRANS_INVS


def cfg(tier, first=True):
    invs = ["Judge"] + STATE_INVS + (TRANS_INVS if tier == "thorough" and first else [])
    return "INIT Init\nNEXT Next\nVIEW StateView\nCHECK_DEADLOCK FALSE\n" + "".join(f"INVARIANT {i}\n" for i in invs)

FA = 99


# --------------------------------------------------------------------------------------------
# abstract values and table family
# --------------------------------------------------------------------------------------------
def A(i):
    return {"t": 0, "e": [i]}


def Tp(*es):
    return {"t": 1, "e": list(es)}


def vkey(v):
    return (v["t"], tuple(v["e"]))


# fixed collision templates: (domains, comment)
TEMPLATES = [
    [[A(1), A(2), Tp(1, 3)], [A(3), A(4)]],                 # (1,3) is an outer element and a full key
    [[A(1), Tp(), Tp(1)], [A(1), A(2)]],                    # empty tuple / 1-tuple as outer elements
    [[A(1), A(2)], [A(1), A(2)]],                           # same domain twice (state x next state)
    [[Tp(1, 2), A(1)], [A(2), Tp(1, 2)]],                   # tuple elements in both fields
    [[Tp(1, 2), A(1), A(2)]],                               # t[1,2] is t[(1,2)]
    [[A(1)]],                                               # singleton
    [[A(1), Tp(1, 2)], [A(2), A(5)], [A(3), A(4)]],         # (1,2): outer element vs partial key
    [[A(1), A(2)], [A(3), A(4)], [A(5), A(6)]],             # 2x2x2: square slices (transpositions are silent)
    [[A(1), Tp(1, 2, 3), A(2)], [A(2), A(3)], [A(3), A(1)]],  # triple: outer element vs full key
    [[A(2), A(1)], [A(3), A(4), A(5)], [A(1), A(2)]],       # 2x3x2
    [[A(1), A(2), A(3)], [A(1)]],                           # trailing singleton field
    [[Tp(), A(3)]],                                         # empty tuple in a 1-field table
]


def rand_value(rng, atoms, p_tuple):
    if rng.random() < p_tuple:
        n = rng.choice([0, 1, 2, 2, 2, 3])
        return Tp(*[rng.choice(atoms) for _ in range(n)])
    return A(rng.choice(atoms))


def rand_table(rng, nf, maxd):
    atoms = list(range(1, 7))
    doms = []
    for f in range(nf):
        size = rng.randint(1, maxd if nf < 3 else min(maxd, 3))
        d, seen = [], set()
        while len(d) < size:
            v = rand_value(rng, atoms[:4] if rng.random() < 0.7 else atoms, 0.3)
            if vkey(v) not in seen:
                seen.add(vkey(v))
                d.append(v)
        doms.append(d)
    return doms


def table_params(doms, tier, hard=True):
    nf = len(doms)
    cells = 1
    for d in doms:
        cells *= len(d)
    if tier == "quick":
        return {1: dict(L=3, W=3), 2: dict(L=2, W=2 if cells <= 6 else 1), 3: dict(L=1 if cells <= 8 and hard else 0, W=1)}[nf]
    return {1: dict(L=3, W=3), 2: dict(L=2 if cells <= 9 else 1, W=2), 3: dict(L=2 if cells <= 8 else 1, W=1)}[nf]


def make_tables(rng, tier):
    tables = []
    seen = set()

    def add(doms, hard=True):
        k = json.dumps(doms, sort_keys=True)
        if k in seen:
            return
        seen.add(k)
        tables.append(dict(doms=doms, **table_params(doms, tier, hard)))
    for t in TEMPLATES:
        add(t)
    n_rand = {1: 4, 2: 7, 3: 3} if tier == "quick" else {1: 30, 2: 30, 3: 12}
    maxd = 3 if tier == "quick" else 4
    for nf, n in n_rand.items():
        target = len(tables) + n
        while len(tables) < target:
            add(rand_table(rng, nf, maxd), hard=False)
    return tables


# --------------------------------------------------------------------------------------------
# concretisation: abstract values / selectors -> python objects
# --------------------------------------------------------------------------------------------
_MIXED = {1: None, 2: 2.5, 3: frozenset({"p", 3}), 4: "x", 5: ("#", 5), 6: 6, FA: "zz"}
LABELINGS = ["int", "str", "mixed", "eq"]


def lab(i, labeling, sel=False):
    if labeling == "int":
        return i
    if labeling == "str":
        return f"s{i}"
    if labeling == "mixed":
        return _MIXED[i]
    if labeling == "eq":            # domains hold ints, selectors use equal floats (dictionary semantics)
        return float(i) if sel else i
    raise ValueError(labeling)


def conc(v, labeling, sel=False):
    if v["t"] == 0:
        return lab(v["e"][0], labeling, sel)
    if v["t"] == 2:      # a frozenset of labels (foreign keys only)
        return frozenset(lab(i, labeling, sel) for i in v["e"])
    return tuple(lab(i, labeling, sel) for i in v["e"])


def conc_comp(c, labeling):
    k = c["k"]
    if k == "key":
        return conc(c["v"], labeling, True)
    if k == "list":
        return [conc(v, labeling, True) for v in c["vs"]]
    if k == "slice":
        return slice(None)
    if k == "ell":
        return Ellipsis
    if k == "pslice":
        return slice(0, 1)
    raise ValueError(k)


def conc_sel(sel, labeling):
    if sel["k"] == "tup":
        return tuple(conc_comp(c, labeling) for c in sel["cs"])
    return conc_comp(sel, labeling)


def tuple_shaped_atom(sel, labeling):
    """Does the selector mention an atom whose python label is itself a tuple (mixed labeling)?"""
    if labeling != "mixed":
        return False

    def atoms(v):
        return v["e"]
    vals = []
    for c in ([sel] + list(sel.get("cs", []))):
        if c["k"] == "key":
            vals.append(c["v"])
        vals.extend(c.get("vs", []))
    return any(isinstance(_MIXED.get(i), tuple) for v in vals for i in atoms(v))


def shape_of(tr):
    """Input shape for signatures: the exact component classes emitted by the spec (K key in domain, F foreign atom,
    T foreign tuple, W whole domain, ":" slice, "..." ellipsis, P partial slice, L / Lf / L0 / Ld lists). Only the
    drift-level shape "key and list separated by a slice" (numpy moves the indexed axes to the front) is named."""
    sel, cls = tr["sel"], tr["cls"]
    if tr["outer"]:
        return ("tup(" + ",".join(cls) + ")" if sel["k"] == "tup" else cls[0]) + "@outer"
    if sel["k"] != "tup":
        return cls[0]
    adv = [i for i, c in enumerate(cls) if c in ("K", "L", "L0")]
    if not tr["strict"] and any(c in ("L", "L0") for c in cls) and len(adv) >= 2 and all(c in ("K", "L", "L0", ":", "...") for c in cls) and any(
            cls[j] in (":", "...") for a, b in zip(adv, adv[1:]) for j in range(a + 1, b)):
        return "tup(key+slice+list)"
    return "tup(" + ",".join(cls) + ")"


def site_of(obj):
    """The class whose __getitem__ the object runs."""
    for k in type(obj).__mro__:
        if "__getitem__" in k.__dict__:
            return k.__name__
    return type(obj).__name__


# --------------------------------------------------------------------------------------------
# building the real objects
# --------------------------------------------------------------------------------------------
# JointProbabilityTable: the configuration option probs_start_index = -2 of ProbabilityTable (distributions span the
# last two fields, so t[k0] of a 3-field table is a 2-field TableDistribution); TableDistribution: built directly
CLASSES = {1: ["Table", "ProbabilityTable", "StateTable", "TableDistribution"],
           2: ["Table", "ProbabilityTable", "StateActionTable", "TabularPolicy", "JointProbabilityTable", "TableDistribution"],
           3: ["Table", "ProbabilityTable", "StateActionNextStateTable", "JointProbabilityTable"]}
MDP_ROOTS = {"StateTable", "StateActionTable", "StateActionNextStateTable", "TabularPolicy"}
_JOINT = []


def joint_class():
    if not _JOINT:
        from msdm.core.table import ProbabilityTable

        class JointProbabilityTable(ProbabilityTable):
            probs_start_index = -2
        _JOINT.append(JointProbabilityTable)
    return _JOINT[0]


def build(cls, doms, labeling, container):
    """container: list / tuple (field_names + field_domains, the named constructors of the MDP tables) or the strings
    "fields" / "fieldsl": the index is built as TableIndex(fields=[Field(name, plain tuple / plain list)]), so the
    domains are NOT domaintuples (their .index is the sequence method) and every class goes through its plain
    constructor cls(data=, table_index=)."""
    from msdm.core.table import Table, TableIndex, ProbabilityTable
    from msdm.core.table.table import TableDistribution
    from msdm.core.table.tableindex import Field
    from msdm.core.mdp.tables import StateTable, StateActionTable, StateActionNextStateTable
    from msdm.core.mdp.tabularpolicy import TabularPolicy
    shape = tuple(len(d) for d in doms)
    data = np.arange(int(np.prod(shape)), dtype=float).reshape(shape)
    mdp = cls in ("StateTable", "StateActionTable", "TabularPolicy", "StateActionNextStateTable")
    names = (["state", "action", "next_state"] if mdp else ["f0", "f1", "f2"])[:len(doms)]
    klass = {"Table": Table, "ProbabilityTable": ProbabilityTable, "TableDistribution": TableDistribution,
             "StateTable": StateTable, "StateActionTable": StateActionTable, "TabularPolicy": TabularPolicy,
             "StateActionNextStateTable": StateActionNextStateTable}.get(cls) or joint_class()
    if container in ("fields", "fieldsl"):
        seq = tuple if container == "fields" else list
        fields = [Field(n, seq(conc(v, labeling) for v in d)) for n, d in zip(names, doms)]
        return klass(data=data, table_index=TableIndex(fields=fields))
    pd = [container(conc(v, labeling) for v in d) for d in doms]
    if cls == "StateTable":
        return StateTable.from_state_list(pd[0], data)
    if cls in ("StateActionTable", "TabularPolicy"):
        return klass.from_state_action_lists(pd[0], pd[1], data)
    return klass(data=data, table_index=TableIndex(field_names=names, field_domains=pd))


def build_from_dict(cls, doms, labeling):
    """The dictionary constructors of the MDP tables (the action order of the result is up to the code)."""
    from msdm.core.mdp.tables import StateTable, StateActionTable
    from msdm.core.mdp.tabularpolicy import TabularPolicy
    pd = [[conc(v, labeling) for v in d] for d in doms]
    if cls == "StateTable":
        return StateTable.from_dict({s: float(i) for i, s in enumerate(pd[0])})
    k = {"StateActionTable": StateActionTable, "TabularPolicy": TabularPolicy}[cls]
    n = len(pd[1])
    return k.from_dict({s: {a: float(i * n + j) for j, a in enumerate(pd[1])} for i, s in enumerate(pd[0])},
                       default_value=-1.0)


def family(e):
    from msdm.core.table.tableindex import DomainError, SliceError
    from msdm.core.mdp.tables import StateActionIndexError
    if isinstance(e, StateActionIndexError):
        return "SAIE"
    if isinstance(e, KeyError):
        return "Key"
    if isinstance(e, IndexError):
        return "Index"
    if isinstance(e, DomainError):
        return "Domain"
    if isinstance(e, SliceError):
        return "Slice"
    if isinstance(e, AssertionError):
        return "Assert"
    if isinstance(e, ValueError):
        return "Value"
    return type(e).__name__


def call(f):
    try:
        return ("ok", f())
    except (KeyboardInterrupt, SystemExit):
        raise
    except BaseException as e:          # noqa: BLE001 - DomainError derives from BaseException
        return ("err", e)


def num_eq(x, y):
    """Exact numeric equality that never raises (whatever the code under test returned)."""
    try:
        return (not is_table(x)) and float(x) == float(y)
    except Exception:       # noqa: BLE001
        return False


def is_table(x):
    from msdm.core.table.table import AbstractTable
    return isinstance(x, AbstractTable)


def srepr(x):
    """repr that does not depend on the hash seed (frozensets are printed sorted)."""
    if isinstance(x, frozenset):
        return "frozenset({" + ", ".join(sorted(srepr(e) for e in x)) + "})"
    if isinstance(x, tuple):
        return "(" + ", ".join(srepr(e) for e in x) + ("," if len(x) == 1 else "") + ")"
    if isinstance(x, list):
        return "[" + ", ".join(srepr(e) for e in x) + "]"
    return repr(x)


def same_label(a, b):
    if isinstance(a, tuple) and isinstance(b, tuple):
        return len(a) == len(b) and all(same_label(x, y) for x, y in zip(a, b))
    return type(a) is type(b) and a == b


def expected_table(doms, cells, labeling, cache=None):
    if cache is not None and labeling in cache:
        return cache[labeling]
    exp_doms = [tuple(conc(v, labeling) for v in d) for d in doms]
    exp = np.array(cells, dtype=float).reshape([len(d) for d in exp_doms])
    if cache is not None:
        cache[labeling] = (exp_doms, exp)
    return exp_doms, exp


def table_matches(r, doms, cells, labeling, cache=None):
    """None if the real table r has exactly the index domains and cells; otherwise (kind, detail)."""
    exp_doms, exp = expected_table(doms, cells, labeling, cache)
    real_doms = r.table_index.field_domains
    if len(real_doms) != len(exp_doms) or any(
            len(a) != len(b) or not all(same_label(x, y) for x, y in zip(a, b)) for a, b in zip(real_doms, exp_doms)):
        return ("wrong-index", f"index domains {srepr([tuple(d) for d in real_doms])} expected {srepr(exp_doms)}")
    data = r.__array__()
    if data.shape != exp.shape or not np.array_equal(data, exp):
        return ("wrong-cells", f"cells {np.asarray(data).tolist()} expected {exp.tolist()}")
    return None


# --------------------------------------------------------------------------------------------
# independent python oracle: literal nested dictionaries
# --------------------------------------------------------------------------------------------
class _Err(Exception):
    pass


def py_oracle(doms, cells, sel):
    """Nested-dictionary meaning of sel on the view (doms as lists of hashable keys, cells in C order).
    Returns ("err",) or ("ok", new_doms, new_cells)."""
    kd = [[vkey(v) for v in d] for d in doms]

    def nest(level, it):
        if level == len(kd):
            return next(it)
        return {k: nest(level + 1, it) for k in kd[level]}
    nd = nest(0, iter(cells))
    m = len(kd)
    comps = None
    hasval = sel["k"] == "key" or (sel["k"] == "tup" and all(c["k"] == "key" and c["v"]["t"] == 0 for c in sel["cs"]))
    if hasval:
        val = vkey(sel["v"]) if sel["k"] == "key" else (1, tuple(c["v"]["e"][0] for c in sel["cs"]))
        if m > 0 and val in kd[0]:
            comps = [("key", val)]
    if comps is None:
        k = sel["k"]
        if k == "key" or k == "pslice":
            return ("err",)
        if k in ("slice", "ell"):
            return ("ok", kd, list(cells))
        src = [dict(k="list", vs=sel["vs"])] if k == "list" else sel["cs"]
        comps = []
        for c in src:
            if c["k"] == "key":
                comps.append(("key", vkey(c["v"])))
            elif c["k"] == "list":
                comps.append(("list", [vkey(v) for v in c["vs"]]))
            else:
                comps.append((c["k"], None))
    n_ell = sum(1 for c in comps if c[0] == "ell")
    if n_ell > 1:
        return ("err",)
    if n_ell == 1:
        i = [c[0] for c in comps].index("ell")
        comps = comps[:i] + [("slice", None)] * max(0, m - len(comps) + 1) + comps[i + 1:]
    if len(comps) > m:
        return ("err",)
    comps = comps + [("slice", None)] * (m - len(comps))
    # validity pass (independent of the data, so that empty domains do not hide a foreign key)
    out_doms = []
    for j, (k, x) in enumerate(comps):
        if k == "key":
            if x not in kd[j]:
                return ("err",)
        elif k == "list":
            if any(y not in kd[j] for y in x):
                return ("err",)
            out_doms.append(x)
        elif k == "slice":
            out_doms.append(kd[j])
        else:
            return ("err",)
    # data pass: d[k1][k2]... with dictionary comprehension over sliced / listed levels

    def walk(d, j):
        if j == m:
            return d
        k, x = comps[j]
        if k == "key":
            return walk(d[x], j + 1)
        keys = x if k == "list" else kd[j]
        return [(y, walk(d[y], j + 1)) for y in keys]
    res = walk(nd, 0)

    def flat(r, depth):
        if depth == 0:
            return [r]
        out = []
        for _, sub in r:
            out.extend(flat(sub, depth - 1))
        return out
    return ("ok", out_doms, flat(res, len(out_doms)))


def cross_check(state, tr):
    r = py_oracle(state["doms"], state["cells"], tr["sel"])
    if (r[0] == "err") != (tr["ost"] == "err"):
        raise TLCFailure(f"TLA+ oracle and python nested-dict oracle disagree on status: {tr['sel']} on {state['doms']}: "
                         f"{tr['ost']} vs {r[0]}")
    if r[0] == "ok":
        if [[vkey(v) for v in d] for d in tr["odoms"]] != [list(d) for d in r[1]] or list(tr["ocells"]) != list(r[2]):
            raise TLCFailure(f"TLA+ oracle and python nested-dict oracle disagree: {tr['sel']} on {state['doms']}: "
                             f"{tr['odoms']} {tr['ocells']} vs {r[1]} {r[2]}")


# --------------------------------------------------------------------------------------------
# judging
# --------------------------------------------------------------------------------------------
def expected_class(obj, ndim_left):
    """Class of a new sub-table (implementation-shaped, DRIFT level): probability tables hand out TableDistributions
    once no more than -probs_start_index fields are left; everything else rebuilds its own class."""
    from msdm.core.table import ProbabilityTable
    if isinstance(obj, ProbabilityTable) and ndim_left <= -obj.probs_start_index:
        return "TableDistribution"
    return type(obj).__name__


def check_dist(ctx, fail, row, dom, entries, labeling, where):
    """Rows of a probability table are distributions: events = the row's domain, probabilities = entries."""
    from msdm.core.distributions import FiniteDistribution
    exp_dom = [conc(v, labeling) for v in dom]
    if not isinstance(row, FiniteDistribution):
        fail("dist", f"{where}: row is {type(row).__name__}, not a distribution")
        return
    st, sup = call(lambda: list(row.support))
    ctx.evaluations += 1
    if st == "err" or len(sup) != len(exp_dom) or not all(any(same_label(x, y) for y in exp_dom) for x in sup):
        fail("dist", f"{where}: support {srepr(sup)} is not the row domain {srepr(exp_dom)}")
        return
    if not all(same_label(x, y) for x, y in zip(sup, exp_dom)):
        ctx.drift("dist-support-order", {"support": repr(sup), "domain": repr(exp_dom)})
    for e, p in zip(exp_dom, entries):
        st, q = call(lambda: row.prob(e))
        ctx.evaluations += 1
        if st == "err" or not num_eq(q, p):
            fail("dist", f"{where}: prob({srepr(e)}) = {str(q)[:60]}, entry is {p}")
            return
    st, items = call(lambda: list(row.items()))
    ctx.evaluations += 1
    if st == "err" or len(items) != len(exp_dom) or not all(
            same_label(k, e) and num_eq(v, p) for (k, v), e, p in zip(items, exp_dom, entries)):
        fail("dist", f"{where}: items() are not the (domain, entries) pairs {srepr(list(zip(exp_dom, entries)))}")
        return
    st, n = call(lambda: len(row))
    if st == "err" or n != len(exp_dom):
        fail("dist", f"{where}: len {n!r} != {len(exp_dom)}")
        return
    st, pr = call(lambda: list(row.probs))
    ctx.evaluations += 1
    if st == "err" or len(pr) != len(entries) or not all(num_eq(q, p) for q, p in zip(pr, entries)):
        fail("dist", f"{where}: probs {str(pr)[:80]} are not the entries {list(entries)}")
        return
    if sum(entries) > 0:
        # a draw from a seeded generator is an event of the row with a positive entry
        st, x = call(lambda: row.sample(rng=random.Random(len(entries) + int(sum(entries)))))
        ctx.evaluations += 1
        hit = [p for e, p in zip(exp_dom, entries) if st == "ok" and same_label(x, e)]
        if st == "err" or not hit or not hit[0] > 0:
            fail("dist", f"{where}: sample(rng=seeded) gave {srepr(x) if st == 'ok' else type(x).__name__}, "
                         f"not an event of {srepr(exp_dom)} with a positive entry in {list(entries)}")
            return
    st, q = call(lambda: row.prob(lab(FA, labeling)))
    if st == "err" or q != 0:
        ctx.drift("dist-prob-foreign", {"got": repr(q)})


def kind_of(x):
    from msdm.core.distributions import FiniteDistribution
    if isinstance(x, FiniteDistribution):
        return "distribution"
    return "sub-table" if is_table(x) else "cell"


def check_iface(ctx, fail, obj, doms, cells, labeling, where, root_last=None, policy=False):
    """keys / iteration / items / values / len walk the outermost domain in order; what items() / values() yield
    is what t[key] gives (same cells, same kind; rows of a probability table are distributions on every path)."""
    from msdm.core.table import ProbabilityTable
    if not doms:
        return
    # the values are rows of a probability table: one more open field, and it is the table's last field
    rows = (isinstance(obj, ProbabilityTable) and len(doms) == 2 and root_last is not None
            and list(obj.table_index.field_names)[-1] == root_last)
    exp_keys = [conc(v, labeling) for v in doms[0]]
    inner = 1
    for d in doms[1:]:
        inner *= len(d)
    st, keys = call(lambda: list(obj.keys()))
    ctx.evaluations += 1
    if st == "err" or len(keys) != len(exp_keys) or not all(same_label(a, b) for a, b in zip(keys, exp_keys)):
        fail("keys", f"{where}: keys() = {srepr(keys)}, outer domain is {srepr(exp_keys)}")
        return
    st, it = call(lambda: list(iter(obj)))
    if st == "err" or len(it) != len(exp_keys) or not all(same_label(a, b) for a, b in zip(it, exp_keys)):
        fail("keys", f"{where}: iteration gives {srepr(it)}, outer domain is {srepr(exp_keys)}")
        return
    st, n = call(lambda: len(obj))
    ctx.evaluations += 1
    if st == "err" or n != len(exp_keys):
        fail("len", f"{where}: len = {n!r}, outer domain has {len(exp_keys)} elements")
        return
    st, items = call(lambda: list(obj.items()))
    ctx.evaluations += 1
    st2, vals = call(lambda: list(obj.values()))
    if st == "err" or st2 == "err" or len(items) != len(exp_keys) or len(vals) != len(exp_keys):
        fail("items", f"{where}: items()/values() failed or have the wrong length")
        return
    for i, ((k, sub), val) in enumerate(zip(items, vals)):
        block = cells[i * inner:(i + 1) * inner]
        if not same_label(k, exp_keys[i]):
            fail("items", f"{where}: items() key {srepr(k)} at position {i}, expected {srepr(exp_keys[i])}")
            return
        for s in (sub, val):
            if len(doms) == 1:
                bad = not num_eq(s, block[0])
            else:
                bad = (not is_table(s)) or table_matches(s, doms[1:], block, labeling) is not None
            if bad:
                fail("items", f"{where}: items()/values() entry under {srepr(k)} is not the sub-table / cell of that key")
                return
        st, direct = call(lambda: obj[k])
        ctx.evaluations += 1
        for path, s in (("items()", sub), ("values()", val)):
            if st == "ok" and kind_of(s) != kind_of(direct):
                fail("items", f"{where}: {path} yields a {kind_of(s)} ({type(s).__name__}) under {srepr(k)} where "
                              f"[{srepr(k)}] gives a {kind_of(direct)} ({type(direct).__name__})")
                return
            if st == "ok" and type(s) is not type(direct):
                ctx.drift("items-class", {"path": path, "yielded": type(s).__name__, "getitem": type(direct).__name__})
            if rows or (len(doms) == 2 and st == "ok" and kind_of(direct) == "distribution"):
                flag = [True]

                def dfail(kind, what, _flag=flag):
                    _flag[0] = False
                    fail("items", what)
                check_dist(ctx, dfail, s, doms[1], block, labeling, f"{where}: row under {srepr(k)} yielded by {path}")
                if not flag[0]:
                    return
    # policy rows
    # (policy: the object is a tabular policy, or a tabular policy restricted to lists of its states / actions)
    if len(doms) == 2 and (policy or type(obj).__name__ == "TabularPolicy"):
        from msdm.core.mdp.tables import StateActionIndexError
        for i, k in enumerate(exp_keys):
            st, row = call(lambda: obj.action_dist(k))
            ctx.evaluations += 1
            if st == "err":
                fail("action_dist", f"{where}: action_dist({srepr(k)}) raised {type(row).__name__}")
                return
            check_dist(ctx, fail, row, doms[1], cells[i * inner:(i + 1) * inner], labeling, f"{where} action_dist({srepr(k)})")
        st, e = call(lambda: obj.action_dist(lab(FA, labeling)))
        ctx.evaluations += 1
        if st == "ok":
            fail("action_dist-no-error", f"{where}: action_dist(foreign state) returned a value")
        elif not isinstance(e, StateActionIndexError):
            fail("action_dist-wrong-error-class", f"{where}: action_dist(foreign state) raised {type(e).__name__}")


def judge_transition(ctx, table, state, tr, obj, root_names, objcls, labeling, cname, mutate=None):
    """Execute one transition on the real object and compare. Returns True when everything agreed."""
    from msdm.core.mdp.tables import StateTable
    from msdm.core.table import ProbabilityTable
    sel = tr["sel"]
    pysel = conc_sel(sel, labeling)
    shape = shape_of(tr)
    agreed = [True]
    # the sub-table of an MDP table that keeps every field (outer-key lists, slices: only restricted / re-ordered)
    # is that MDP table restricted to those keys, so the MDP clauses (index error, policy rows) bind on it whatever
    # class the code rebuilt it with
    is_mdp = isinstance(obj, StateTable) or (objcls in MDP_ROOTS and len(state["doms"]) == len(table["doms"]))
    viewcls = type(obj).__name__
    case = {"table": {"doms": table["doms"]}, "hist": state["hist"], "sel": sel, "cls": objcls,
            "labeling": labeling, "container": cname}

    def fail(kind, what, method="__getitem__"):
        agreed[0] = False
        coarse = {"raised": "wrong-result", "wrong-kind": "wrong-result", "wrong-index": "wrong-result",
                  "wrong-cells": "wrong-result"}.get(kind, kind)
        sig = f"C12:{site_of(obj)}.{method}:{shape}:{coarse}"
        if kind in ("keys", "len", "items", "dist") or kind.startswith("action_dist"):
            # iteration / distribution interface of the returned sub-table: not a matter of the selector shape
            sig = f"C12:{viewcls}.{kind}:{'row' if kind == 'dist' else 'sub-table'}"
        ctx.violation(sig,
                      f"[{kind}] {viewcls}[{srepr(pysel)}] (root {objcls}, chain of {len(state['hist'])}) on domains "
                      f"{srepr([[conc(v, labeling) for v in d] for d in state['doms']])}: {what}", case)

    # call history + mutated input: the list inside the selector is first looked up (same selector object, same
    # table, nothing in between) with a different content, then edited in place to the content that is judged
    lst = pysel if isinstance(pysel, list) else next((c for c in pysel if isinstance(c, list)), None) \
        if isinstance(pysel, tuple) else None
    if lst is not None:
        want = list(lst)
        alts = [list(reversed(want)), []]
        if sel["k"] == "list" and state["doms"][0]:
            alts.append([conc(state["doms"][0][0], labeling, True)])
        alt = next((a for a in alts if a != want), None)
        if alt is not None:
            lst[:] = alt
            call(lambda: obj[pysel])
            lst[:] = want
            ctx.evaluations += 1
            ctx.count("reused_selector_object_histories")
    st, r = call(lambda: obj[pysel])
    ctx.evaluations += 1
    if mutate is not None:
        st, r = mutate(st, r, tr)
    strict = tr["strict"]
    matched_o = False
    r_comparable = True
    # ------------------------------------------------ against the oracle (clauses of the statement)
    if strict:
        if tr["ost"] == "err":
            if st == "ok":
                fail("no-error", f"a key outside the domain returned {str(r)[:100]} instead of raising")
            elif tr["foreign"] and is_mdp and family(r) != "SAIE":
                fail("wrong-error-class", f"foreign key raised {type(r).__name__} instead of StateActionIndexError")
        elif st == "err":
            fail("raised", f"raised {type(r).__name__}: {str(r)[:120]}")
        elif not tr["odoms"]:
            if is_table(r) or (isinstance(r, np.ndarray) and r.ndim > 0):
                fail("wrong-kind", f"expected the cell {tr['ocells'][0]}, got a {type(r).__name__}")
            elif not num_eq(r, tr["ocells"][0]):
                fail("wrong-cells", f"cell {r!r} expected {tr['ocells'][0]}")
        elif not is_table(r):
            fail("wrong-kind", f"expected a sub-table over {tr['odoms']}, got {str(r)[:100]}")
        else:
            bad = table_matches(r, tr["odoms"], tr["ocells"], labeling, tr["_expo"])
            matched_o = bad is None
            if bad:
                fail(bad[0], bad[1])
            else:
                if tr["row"] and isinstance(obj, ProbabilityTable):
                    check_dist(ctx, fail, r, tr["odoms"][0], tr["ocells"], labeling, "row")
                if tr["_h"] % state["iface_mod"] == 0:
                    check_iface(ctx, fail, r, tr["odoms"], tr["ocells"], labeling, "result", root_last=root_names[-1],
                                policy=objcls == "TabularPolicy" and len(tr["odoms"]) == 2)
    # ------------------------------------------------ against the reference machine (DRIFT only)
    if agreed[0]:
        rdoms, rcells = (tr["odoms"], tr["ocells"]) if tr["same"] else (tr["rdoms"], tr["rcells"])
        d = None
        if tr["garbled"]:
            ctx.count("numpy_axis_order_quirk(key,slice,list)_not_compared")
            r_comparable = False
        elif cname == "fieldsl" and ("W" in tr["cls"] or shape == "tup(key+slice+list)"):
            # "a component equal to the whole domain acts as a slice" (DRIFT-level) is a `selector == domain` test in
            # the code: on a domain kept as a plain list it never holds for a tuple and does hold for an equal list
            # (which then is a slice, not an integer list, for numpy). R describes tuple domains; both shapes are
            # outside the statement, so they are counted and not compared for this representation.
            ctx.count("whole_domain_component_on_list_domain_not_compared")
            r_comparable = False
        elif tr["rst"] == "err":
            if st == "ok":
                d = f"reference machine raises {tr['rfam']}, code returned a value"
            else:
                fam = family(r)
                exp = tr["rfamMdp"] if is_mdp else tr["rfam"]
                if fam != exp and not tuple_shaped_atom(sel, labeling):
                    d = f"exception family {fam} ({type(r).__name__}), reference machine says {exp}"
        elif st == "err":
            d = f"code raised {type(r).__name__}, reference machine returns a value"
        elif not rdoms:
            if not num_eq(r, rcells[0]):
                d = f"cell {r!r}, reference machine says {rcells[0]}"
        elif not is_table(r) or not ((tr["same"] and matched_o) or table_matches(
                r, rdoms, rcells, labeling, tr["_expo"] if tr["same"] else tr["_expr"]) is None):
            d = "sub-table differs from the reference machine"
        elif r is not obj and type(r).__name__ != expected_class(obj, len(rdoms)):
            d = f"result class {type(r).__name__}, reference machine says {expected_class(obj, len(rdoms))}"
        elif list(r.table_index.field_names) != [root_names[i - 1] for i in tr["names"]]:
            d = f"field names {list(r.table_index.field_names)} for surviving fields {tr['names']} of {root_names}"
        if d is not None:
            ctx.drift("GetItem", {"cls": viewcls, "shape": shape, "detail": d, "sel": repr(pysel)[:80]})
            ctx.count("drift_transitions")
            agreed[0] = False
    # ------------------------------------------------ get(): same value; KeyError -> default
    if tr["_h"] % state["get_mod"] == 1 % state["get_mod"]:
        sentinel = object()
        st2, g = call(lambda: obj.get(pysel, sentinel))
        ctx.evaluations += 1
        if st == "ok" and strict and tr["ost"] == "ok":
            if is_table(r):
                same = st2 == "ok" and is_table(g) and (g is r or table_matches(g, tr["odoms"], tr["ocells"], labeling) is None)
                same = same or not agreed[0]        # [] itself is already reported
            else:
                same = (st2 == "ok" and g is not sentinel and not tr["odoms"] and num_eq(g, tr["ocells"][0])) or not agreed[0]
            if same and agreed[0] and tr["row"] and isinstance(obj, ProbabilityTable) and g is not r:
                check_dist(ctx, lambda k, w: fail("get-differs", w, method="get"), g, tr["odoms"][0], tr["ocells"],
                           labeling, "row through get()")
            if not same:
                fail("get-differs", f"get() gave {str(g)[:80]} where [] gave {str(r)[:80]}", method="get")
        elif st == "err" and strict:
            if st2 == "ok" and g is not sentinel:
                fail("get-no-error", f"get() returned {str(g)[:80]} for a key on which [] raises", method="get")
        # the default path of get() is its dictionary contract, not a clause of the statement (a plain table answers
        # get(foreign key) with the default on purpose): judged against the reference machine at DRIFT level
        if agreed[0] and r_comparable and st == "err" and tr["rst"] == "err" and not tuple_shaped_atom(sel, labeling):
            exp = tr["rgetMdp"] if is_mdp else tr["rget"]
            got = "raise" if st2 == "err" else ("default" if g is sentinel else "value")
            if exp != got and not (strict and got == "value"):
                ctx.drift("get", {"cls": viewcls, "shape": shape,
                                  "detail": f"get() answers with '{got}', reference machine says '{exp}'"})
    return agreed[0]


CONTAINERS = ["list", "fields", "tuple", "fieldsl"]


def combos_for(tid, nf):
    out = []
    for ci, cls in enumerate(CLASSES[nf]):
        out.append((cls, LABELINGS[(tid + ci) % len(LABELINGS)], CONTAINERS[(tid // 2 + ci) % len(CONTAINERS)]))
    for ci, cls in enumerate({1: ["StateTable"], 2: ["StateActionTable", "TabularPolicy"], 3: []}[nf]):
        out.append((cls, LABELINGS[(tid + ci + 2) % len(LABELINGS)], "dict"))
    return out


def tlc_states(ctx, tables, workers=8):
    """Run TLC over the tables; returns {tid: [state records sorted by chain length]}."""
    res = run_tlc(ctx.workdir / f"mc{len(ctx.tlc_runs)}", MODULE, cfg(ctx.tier, first=not ctx.tlc_runs), files={"batch.json": tables},
                  env={"BATCH_FILE": "batch.json"}, workers=workers, coverage=False, heap="4g")
    ctx.add_tlc(res, f"mc: all selector chains (<= L) over {len(tables)} tables; every view x menu selector judged by O and R")
    bad = [v for v in res.violated if v in DESIGN_INVS]
    if bad:
        raise TLCFailure(f"design-level invariant violated in {MODULE}: {sorted(set(bad))}\n"
                         + (res.traces[0][:3000] if res.traces else ""))
    if len(res.records) != res.distinct:
        raise TLCFailure(f"{MODULE}: {res.distinct} distinct states but {len(res.records)} state records emitted")
    by_tid = {}
    for rec in res.records:
        by_tid.setdefault(rec["tid"], []).append(rec)
    for rec in res.records:
        for tr in rec["trans"]:
            tr["_key"] = json.dumps(tr["sel"], sort_keys=True)
            tr["_h"] = hashlib.sha1(tr["_key"].encode()).digest()[0]
            tr["_expo"], tr["_expr"] = {}, {}
    for tid in by_tid:
        by_tid[tid].sort(key=lambda s: (len(s["hist"]), json.dumps(s["hist"], sort_keys=True)))
    return by_tid


def judge_table(ctx, table, tid, states, combos, *, mutate=None, build_hook=None, only_state=None, only_sel=None):
    """Replay every state's chain on the real objects and execute every transition out of it."""
    for cls, labeling, cname in combos:
        container = {"list": list, "tuple": tuple}.get(cname, cname)
        if cname == "dict":
            root = build_from_dict(cls, table["doms"], labeling)
        else:
            root = (build_hook or build)(cls, table["doms"], labeling, container)
        root_names = list(root.table_index.field_names)
        for state in states:
            if only_state is not None and state is not only_state:
                continue
            if cname == "dict":
                # the field order of the domains is the code's choice: only the root, and only transitions whose
                # result does not depend on it (cells and errors), are comparable
                if state["hist"]:
                    continue
                for tr in state["trans"]:
                    if only_sel is not None and tr["_key"] != only_sel:
                        continue
                    # (a tuple component made of domain elements may equal the whole domain in the code's order)
                    if tr["strict"] and (tr["ost"] == "err" or not tr["odoms"]) and "T" not in tr["cls"] and "W" not in tr["cls"]:
                        state["get_mod"], state["iface_mod"] = 3, 5
                        ok = judge_transition(ctx, table, state, tr, root, root_names, cls, labeling, cname, mutate=mutate)
                        tr["_ok"] = tr.get("_ok", True) and ok
                        tr["_ran"] = True
                        ctx.count("from_dict_transitions")
                continue
            state["get_mod"] = 1 if only_sel is not None else 3
            state["iface_mod"] = 1 if only_sel is not None else 5
            if not state["doms"]:
                continue        # a cell: nothing to index (its value was compared at the transition that produced it)
            obj, reached = root, True
            for s in state["hist"]:
                st, obj = call(lambda: obj[conc_sel(s, labeling)])
                ctx.evaluations += 1
                if st == "err" or not is_table(obj):
                    reached = False
                    break
            if reached and state["hist"] and table_matches(obj, state["doms"], state["cells"], labeling) is not None:
                reached = False
            if not reached:
                ctx.skip("view not reached on the real object (the failing step is reported at its own transition)")
                continue
            if only_sel is None or only_sel == "view":
                def sfail(kind, what, method=None, _state=state, _obj=obj):
                    _state["_viewok"] = False
                    ctx.violation(f"C12:{type(_obj).__name__}.{kind}:{'row' if kind == 'dist' else 'sub-table'}", what,
                                  {"table": {"doms": table["doms"]}, "hist": _state["hist"], "sel": "view", "cls": cls,
                                   "labeling": labeling, "container": cname})
                check_iface(ctx, sfail, obj, state["doms"], state["cells"], labeling,
                            f"{type(obj).__name__} view (root {cls}, chain of {len(state['hist'])})", root_last=root_names[-1],
                            policy=cls == "TabularPolicy" and len(state["doms"]) == 2)
            if only_sel == "view":
                continue
            for tr in state["trans"]:
                if only_sel is not None and tr["_key"] != only_sel:
                    continue
                ok = judge_transition(ctx, table, state, tr, obj, root_names, cls, labeling, cname, mutate=mutate)
                tr["_ok"] = tr.get("_ok", True) and ok
                tr["_ran"] = True


def account(ctx, table, states, n_cross):
    for state in states:
        for tr in state["trans"]:
            if not tr.get("_ran"):
                continue
            n_cross[0] += 1
            if n_cross[0] % 5 == 0:
                cross_check(state, tr)
                ctx.count("oracle_crosschecks")
            if tr["_ok"]:
                ctx.validated += 1
            chain = len(state["hist"]) + 1
            ncomp = len(tr["sel"]["cs"]) if tr["sel"]["k"] == "tup" else 1
            collide = tr["outer"] and tr["sel"]["k"] == "tup"
            if tr["strict"] and (chain >= 2 or ncomp >= 2 or collide):
                ctx.nontrivial(digest([table["doms"], state["hist"], tr["sel"]]))
            ctx.count("strict_transitions" if tr["strict"] else "driftlevel_transitions")
            if collide:
                ctx.count("colliding_tuple_keys")
            if tr["foreign"]:
                ctx.count("foreign_keys")
            ctx.count("shape:" + shape_of(tr).split("@")[0][:3])
    if states and len(ctx.samples) < 4:
        s0 = states[min(1, len(states) - 1)]
        if s0["trans"]:
            t0 = s0["trans"][len(s0["trans"]) // 2]
            ctx.sample({"domains": table["doms"], "chain": s0["hist"], "selector": t0["sel"],
                        "expected": {"status": t0["ost"], "domains": t0["odoms"], "cells": t0["ocells"]},
                        "strict": t0["strict"]})


def run_batch(ctx, tables, *, mutate=None, build_hook=None, workers=8):
    by_tid = tlc_states(ctx, tables, workers)
    n_cross = [0]
    with warnings.catch_warnings():
        warnings.simplefilter("ignore")
        for tid in sorted(by_tid):
            table = tables[tid - 1]
            judge_table(ctx, table, tid, by_tid[tid], combos_for(tid, len(table["doms"])),
                        mutate=mutate, build_hook=build_hook)
            account(ctx, table, by_tid[tid], n_cross)


RULE = ("tables of 1-3 fields, domains of size 1-3 (4 in thorough) over atoms and tuples of atoms (incl. the empty tuple, "
        "1-tuples, tuples that are both an outer element and a field-wise key, equal domains in several fields); "
        "TLC enumerates every selector chain of length <= L over the grammar (key, full / partial / nested tuple key, "
        "list of outer keys, slice, ellipsis, tuple with list / slice / ellipsis components, foreign keys); each "
        "transition is run on every table class of that arity under one of 4 label representations. non-trivial = "
        "a strict (statement-level) transition whose chain has >= 2 selectors, or whose tuple selector touches >= 2 "
        "fields, or whose tuple key collides with an element of the outermost domain")


def run(ctx):
    rng = random.Random(ctx.seed * 104729 + 12)
    ctx.rule = RULE
    ctx.assumptions = [
        "TLC evaluates the TLA+ oracle correctly (cross-checked against an independent python nested-dictionary "
        "implementation on every 5th executed transition)",
        "cells are compared exactly (they are small integers stored as floats, no arithmetic happens)",
        "selector shapes the statement does not fix (partial slices, two ellipses, two list components, repeated keys in a "
        "list, a component equal to a whole domain, the empty tuple) are judged at DRIFT level against the reference machine",
    ]
    tables = make_tables(rng, ctx.tier)
    chunk = 48 if ctx.tier == "quick" else 36
    for k in range(0, len(tables), chunk):
        run_batch(ctx, tables[k:k + chunk], workers=8 if ctx.tier == "quick" else 12)


def replay_target(hist, records):
    """Follow the stored chain through the emitted expectations to the state record of the resulting view."""
    cur = next(s for s in records if not s["hist"])
    for sel in hist:
        key = json.dumps(sel, sort_keys=True)
        tr = next(t for t in cur["trans"] if json.dumps(t["sel"], sort_keys=True) == key)
        doms, cells = (tr["odoms"], tr["ocells"]) if tr["same"] else (tr["rdoms"], tr["rcells"])
        nxt = [s for s in records if s["doms"] == doms and s["cells"] == cells]
        if not nxt:
            raise TLCFailure("replay: the stored chain leaves the explored state graph")
        cur = nxt[0]
    return cur


def replay(ctx, case):
    ctx.rule = RULE
    table = dict(doms=case["table"]["doms"], L=len(case["hist"]), W=3 if len(case["table"]["doms"]) == 1 else 2)
    by_tid = tlc_states(ctx, [table], workers=4)
    states = by_tid[1]
    target = replay_target(case["hist"], states)
    only_sel = "view" if case["sel"] == "view" else json.dumps(case["sel"], sort_keys=True)
    if only_sel != "view" and not any(json.dumps(t["sel"], sort_keys=True) == only_sel for t in target["trans"]):
        raise TLCFailure("replay: the stored selector is not in the menu of the stored view")
    with warnings.catch_warnings():
        warnings.simplefilter("ignore")
        judge_table(ctx, table, 1, states, [(case["cls"], case["labeling"], case["container"])],
                    only_state=target, only_sel=only_sel)
        account(ctx, table, states, [0])


def selftest(ctx):
    """Binding demonstration: (1) corrupt a value returned by the real code, (2) hand msdm a table whose
    outer domain is permuted with respect to the instance TLC judged. Both must be detected."""
    ctx.rule = RULE
    tables = [dict(doms=TEMPLATES[2], L=2, W=2), dict(doms=TEMPLATES[10], L=2, W=2)]
    # baseline: what the unchanged binding reports on these tables (nothing, or findings of the unchanged tree)
    run_batch(ctx, tables, workers=4)
    base = {v[0] for v in ctx.violations}
    # (1) one returned cell off by one
    state = {"n": 0}

    def mutate(st, r, tr):
        if st == "ok" and not is_table(r) and tr["strict"] and state["n"] == 0:
            state["n"] += 1
            return st, r + 1
        return st, r
    n0 = len(ctx.violations)
    run_batch(ctx, tables, mutate=mutate, workers=4)
    new1 = {v[0] for v in ctx.violations[n0:]} - base
    got1 = any("[wrong-cells]" in v[1] for v in ctx.violations[n0:] if v[0] in new1)
    print(f"  selftest (1) corrupted returned cell detected: {got1}")
    # (2) instance handed to msdm differs from the one TLC judged (outer domain reversed)

    def build_hook(cls, doms, labeling, container):
        return build(cls, [list(reversed(doms[0]))] + [list(d) for d in doms[1:]], labeling, container)
    n0 = len(ctx.violations)
    run_batch(ctx, tables, build_hook=build_hook, workers=4)
    new2 = {v[0] for v in ctx.violations[n0:]} - base
    got2 = len(new2) > 0
    print(f"  selftest (2) permuted instance detected: {got2} ({len(new2)} new signatures)")
    return got1 and got2
