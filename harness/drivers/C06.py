"""C06 - matrix, table and wrapper views of a tabular MDP agree with its functional definition.

Pipeline A (spec -> code): random members of the C06 family (spec/C06_Views.tla header) are written
to a batch; TLC explores the reference machine (breadth-first search with every pop order and every
max_states cut-off, list construction, row-by-row array construction, derived vectors, rebuilding
from the arrays), checks the design invariants and prints, per instance, the exact keyed views and
the set of admissible cut-off results.  The driver builds the same instance as msdm objects in
several representations (subclass, QuickTabularMDP with callables / wrapped bound methods /
constants and deterministic variants, QuickMDP, from_matrices of harness arrays), runs the real
code, projects arrays through msdm's own state_list / action_list to abstract indices and compares
cell by cell with what TLC printed.  Round trips (from_matrices(**arrays of the real object)) and
planning results (value iteration on the original and on the rebuilt object, against the exact
optimal values printed by TLC) are judged the same way.
"""
import itertools
import random
import warnings
from fractions import Fraction as F

import numpy as np

from .. import gen
from ..build import make_labels, LABEL_KINDS, frac
from ..core import digest
from ..tlc import run_tlc, TLCFailure

CFG = """INIT Init
NEXT Next
CHECK_DEADLOCK FALSE
INVARIANT Emit
INVARIANT ReachInv
INVARIANT ReachFixpoint
INVARIANT CutSemantics
INVARIANT ListOk
INVARIANT ArraysAgree
INVARIANT DerivedAgree
INVARIANT RoundTrip
INVARIANT DenseRebuild
INVARIANT InstancesWellFormed
INVARIANT ZeroDiscountIsMyopic
INVARIANT Terminates
"""
DESIGN_INVS = ["ReachInv", "ReachFixpoint", "CutSemantics", "ListOk", "ArraysAgree", "DerivedAgree",
               "RoundTrip", "DenseRebuild", "InstancesWellFormed", "ZeroDiscountIsMyopic", "Terminates"]
INF = -1
VI_EPS = 1e-10


# --------------------------------------------------------------------------------------------
# instance family
# --------------------------------------------------------------------------------------------
def _add_unreachable(rng, m, rewards):
    """Append one state nobody points to (so it is outside the reachable set)."""
    N, K, PD = m["N"], m["K"], m["PD"]
    for s in range(N):
        for a in range(K):
            m["P"][s][a].append(0)
            m["R"][s][a].append(rng.choice(rewards))
    m["P"].append([gen.rand_row(rng, N + 1, PD) for _ in range(K)])
    m["R"].append([[rng.choice(rewards) for _ in range(N + 1)] for _ in range(K)])
    while True:
        row = [1 if rng.random() < 0.7 else 0 for _ in range(K)]
        if any(row):
            break
    m["avail"].append(row)
    m["abs"].append(1 if rng.random() < 0.3 else 0)
    m["p0"].append(0)
    m["N"] = N + 1
    return N


def _row_into(rng, m, targets):
    """A random distribution row (numerators over PD) supported inside `targets`."""
    targets = sorted(targets)
    sub = gen.rand_row(rng, len(targets), m["PD"])
    row = [0] * m["N"]
    for i, t in enumerate(targets):
        row[t] = sub[i]
    return row


def make_instance(rng, style):
    """Returns m.  Styles: clean, plan, const, absinit, ghost, zeros_out, rare.

    rare: probabilities over a denominator of 10^8 / 10^9, with rows (and initial distributions) that put a
    weight of 1 (or 10) next to an ordinary one, i.e. entries of 1e-9 / 1e-8: tiny but positive, so they are
    successors, cells of the arrays and (possibly the only) way to reach a state.  Rewards are bounded so that
    every sum T*R the spec forms stays below 2^30; the planning clause is not evaluated on this family."""
    rewards = (-2, -1, 0, 1, 2)
    while True:
        if style == "plan":
            GN, GD = rng.choice([(1, 2), (3, 4), (9, 10), (0, 1)])
            PD = rng.choice([2, 4])
            n_na, n_abs, K = rng.choice([1, 2, 2, 3]), rng.choice([0, 1, 1, 2]), rng.choice([1, 2, 2, 3])
        else:
            GN, GD = rng.choice([(1, 2), (3, 4), (9, 10), (1, 1), (1, 1), (19, 20), (0, 1)])
            PD = rng.choice([2, 4, 4, 3])
            n_na, n_abs, K = rng.choice([1, 2, 3, 3, 4]), rng.choice([0, 1, 1, 2]), rng.choice([1, 2, 2, 3])
        if style in ("absinit", "ghost") and n_abs == 0:
            n_abs = 1
        ID = rng.choice([2, 4, 3])
        if style == "rare":
            PD = rng.choice([10 ** 8, 10 ** 9])
            ID = PD
            rewards = (-2, -1, 0, 1, 2) if PD == 10 ** 8 else (-1, 0, 1)     # |sum T*R| <= 2e8 resp. 1e9 < 2^30
        m = gen.rand_mdp(rng, n_na=n_na, n_abs=n_abs, K=K, PD=PD, GN=GN, GD=GD, rewards=rewards, ID=ID,
                         uniform_actions=(style == "const" and rng.random() < 0.8), p_implicit=0.15,
                         init_on_abs=0.3)
        explicit = 1 if rng.random() < 0.35 else 0
        if style in ("absinit", "ghost", "zeros_out"):
            explicit = 1 if rng.random() < 0.15 else 0
        N, K = m["N"], m["K"]
        if style == "rare":
            tiny = [1] if PD == 10 ** 8 else [1, 1, 10]                     # 1e-8 resp. 1e-9, 1e-8
            nonzero = [r for r in rewards if r != 0]

            def tiny_row(n):
                cells = rng.sample(range(n), min(n, rng.choice([2, 2, 3])))
                row = [0] * n
                for c in cells[1:]:
                    row[c] = rng.choice(tiny)
                row[cells[0]] = PD - sum(row)
                return row, cells[1:]
            if N >= 2:
                for s in range(N):
                    for a in range(K):
                        if rng.random() < 0.6:
                            m["P"][s][a], small = tiny_row(N)
                            for t in small:                                  # the tiny entry carries a visible reward
                                m["R"][s][a][t] = rng.choice(nonzero)
                if rng.random() < 0.6:
                    m["p0"], _ = tiny_row(N)
        # dead ends (no action at all)
        if style in ("clean", "ghost", "zeros_out", "absinit", "rare") and rng.random() < 0.3:
            s = rng.randrange(N)
            m["avail"][s] = [0] * K
        if style == "const":
            flags = {f: rng.random() < 0.8 for f in ("reward", "det", "init")}
            if flags["reward"]:
                c = rng.choice([0, 0, -1, 2])
                m["R"] = [[[c] * N for _ in range(K)] for _ in range(N)]
            if flags["det"]:
                for s in range(N):
                    for a in range(K):
                        row = [0] * N
                        row[rng.randrange(N)] = PD
                        m["P"][s][a] = row
            if flags["init"]:
                m["p0"] = [0] * N
                m["p0"][rng.randrange(N)] = ID
        # -------- corner inputs
        if style == "absinit":
            sa = rng.choice([x for x in range(N) if m["abs"][x]])
            if rng.random() < 0.4:
                m["p0"] = [0] * N
                m["p0"][sa] = ID
            elif m["p0"][sa] == 0:
                src = next(x for x in range(N) if m["p0"][x] > 0)
                m["p0"][src] -= 1
                m["p0"][sa] += 1
            if not any(m["avail"][sa]):
                m["avail"][sa][rng.randrange(K)] = 1
        reach = gen.reach(m)
        # by default nothing points out of the reachable set except rows of unreachable states:
        # ghost rows of reachable absorbing states are redirected into the reachable set
        for s in sorted(reach):
            if m["abs"][s]:
                for a in range(K):
                    m["P"][s][a] = _row_into(rng, m, reach)
        if style == "absinit":
            u = _add_unreachable(rng, m, rewards)
            a = rng.choice([x for x in range(K) if m["avail"][sa][x]])
            m["P"][sa][a] = _row_into(rng, m, [u] if rng.random() < 0.5 else [u, sa])
            if m["P"][sa][a][u] == 0:
                m["P"][sa][a] = _row_into(rng, m, [u])
        elif style == "ghost":
            cands = [x for x in sorted(reach) if m["abs"][x] and m["p0"][x] == 0 and any(m["avail"][x])]
            if not cands:
                continue
            s = rng.choice(cands)
            u = _add_unreachable(rng, m, rewards)
            a = rng.choice([x for x in range(K) if m["avail"][s][x]])
            m["P"][s][a] = _row_into(rng, m, [u])
        N = m["N"]
        reach = gen.reach(m)
        # zero-probability entries
        m["Z"] = [[[0] * N for _ in range(K)] for _ in range(N)]
        m["Z0"] = [0] * N
        if style == "zeros_out":
            cands = [(x, a) for x in sorted(reach) for a in range(K) if m["avail"][x][a] and not m["abs"][x]]
            if not cands:
                continue
            u = _add_unreachable(rng, m, rewards)
            N = m["N"]
            for row in m["Z"]:
                for r in row:
                    r.append(0)
            m["Z"].append([[0] * N for _ in range(K)])
            m["Z0"].append(0)
            x, a = rng.choice(cands)
            m["Z"][x][a][u] = 1
            reach = gen.reach(m)
        elif rng.random() < 0.5 and not (style == "const"):
            for _ in range(rng.randint(1, 4)):
                s, a, t = rng.randrange(N), rng.randrange(K), rng.randrange(N)
                inside = explicit or (t in reach) or (s not in reach)
                if m["P"][s][a][t] == 0 and inside:
                    m["Z"][s][a][t] = 1
            for _ in range(rng.randint(0, 2)):
                t = rng.randrange(N)
                # (value iteration sums over every listed entry of the initial distribution: for the planning
                #  clause zero entries stay inside the state list; that is the planner's business, not C06's)
                if m["p0"][t] == 0 and (style != "plan" or explicit or t in reach):
                    m["Z0"][t] = 1
        elif style == "const" and rng.random() < 0.3:
            t = rng.randrange(N)
            if m["p0"][t] == 0:
                m["Z0"][t] = 1
        if m["N"] > 6:
            continue
        m["explicit"] = explicit
        m["plan"] = 0
        if style == "plan":
            if any(not any(r) for r in m["avail"]) or not gen.magnitude_ok(m):
                continue
            m["plan"] = 1
        ncuts = rng.choice([2, 2, 3])            # >= 2 different cut-offs: call histories on one object need them
        m["cuts"] = sorted(rng.sample(range(0, m["N"] + 2), ncuts))
        # explicit lists are given in an order of their own (1-based abstract indices, as TLC sees them)
        m["order"] = rng.sample(range(1, m["N"] + 1), m["N"])
        m["aorder"] = rng.sample(range(1, m["K"] + 1), m["K"])
        m["aexplicit"] = 1 if (explicit and rng.random() < 0.7) else 0
        return m


# label kinds of the harness plus "collide": state labels that are tuples built from other state / action labels
# (singletons (s,), pairs (s, a), triples (s, a, s')), so that a state label can be mistaken for a multi-field key
STATE_LABEL_KINDS = LABEL_KINDS + ["collide", "collide"]
STYLES = (["clean"] * 6 + ["plan"] * 4 + ["const"] * 3 + ["absinit"] * 2 + ["ghost"] * 2 + ["zeros_out"] * 2
          + ["rare"] * 3)


def make_cases(rng, n):
    cases = []
    for i in range(n):
        style = STYLES[i % len(STYLES)]
        m = make_instance(rng, style)
        rep = {"labels": rng.choice(STATE_LABEL_KINDS), "alabels": rng.choice(LABEL_KINDS),
               "dist": rng.choice(["dict", "det", "uniform"]),
               "base": rng.choice(["subclass", "quick"]),
               "extra": rng.choice(["wrap", "wrap_obj", "quickmdp", "matrices"]),
               "explicit_actions": m["aexplicit"],
               "seed": rng.randrange(1 << 30)}
        if rep["labels"] == "collide":
            rep["alabels"] = "int"          # the components of the colliding tuples are real state / action labels
        cases.append({"m": m, "rep": rep, "style": style})
    return cases


# --------------------------------------------------------------------------------------------
# independent Python oracle (cross-check of the TLA+ oracle; a disagreement is a machinery failure)
# --------------------------------------------------------------------------------------------
def py_edges(m, s):
    return {t for a in range(m["K"]) if m["avail"][s][a] for t in range(m["N"]) if m["P"][s][a][t] > 0}


def py_cut_results(m, c):
    ab = {s for s in range(m["N"]) if m["abs"][s]}
    s0 = frozenset(s for s in range(m["N"]) if m["p0"][s] > 0)
    out = set()
    seen = set()
    stack = [(frozenset(s0 - ab), s0)]
    while stack:
        fr, vis = stack.pop()
        if (fr, vis) in seen:
            continue
        seen.add((fr, vis))
        if not fr or (c != INF and len(vis) >= c):
            out.add(vis)
            continue
        for s in fr:
            new = py_edges(m, s) - vis
            stack.append(((fr - {s}) | (new - ab), vis | new))
    return out


def py_views(m):
    N, K = m["N"], m["K"]
    ab = {s for s in range(N) if m["abs"][s]}
    (reach,) = py_cut_results(m, INF)
    T = [[[m["P"][s][a][t] if m["avail"][s][a] else 0 for t in range(N)] for a in range(K)] for s in range(N)]
    R = [[[m["R"][s][a][t] if T[s][a][t] > 0 else 0 for t in range(N)] for a in range(K)] for s in range(N)]
    dead = {s for s in range(N) if not any(m["avail"][s])}
    impl = {s for s in range(N) if s not in dead and s not in ab
            and all(T[s][a][s] == m["PD"] and R[s][a][s] == 0 for a in range(K) if m["avail"][s][a])}
    absall = ab | impl
    can = set(absall)
    changed = True
    while changed:
        changed = False
        for s in range(N):
            if s not in can and py_edges(m, s) & can:
                can.add(s)
                changed = True
    cannot = set() if m["GN"] < m["GD"] else set(range(N)) - can
    return {"reach": set(reach), "T": T, "R": R, "absall": absall, "dead": dead, "cannot": cannot}


def crosscheck(i, m, rec, cuts):
    pv = py_views(m)
    one = lambda xs: {x - 1 for x in xs}
    if one(rec["reach"]) != pv["reach"] or rec["T"] != pv["T"] or rec["R"] != pv["R"] \
            or one(rec["absall"]) != pv["absall"] or one(rec["dead"]) != pv["dead"] or one(rec["cannot"]) != pv["cannot"]:
        raise TLCFailure(f"TLA+ views and the independent Python oracle disagree on case {i}: {rec} vs {pv}")
    for k, c in enumerate(m["cuts"]):
        if cuts[k] != {frozenset(x) for x in py_cut_results(m, c)}:
            raise TLCFailure(f"TLA+ CutResults and the Python oracle disagree on case {i} cut {c}")


# --------------------------------------------------------------------------------------------
# building msdm objects
# --------------------------------------------------------------------------------------------
def colliding_labels(N, K, rng):
    """Int states 0..nb-1 plus tuples over them and the int actions 0..K-1: (s,), (s, a), (s, a, s').  Every
    component of a tuple label is an element of the matching table domain (state, action, next state)."""
    nb = 1 if N <= 2 else 2
    base = list(range(nb))
    pairs = [(x, a) for x in base for a in range(K)]
    triples = [(x, a, t) for x in base for a in range(K) for t in base]
    singles = [(x,) for x in base]
    for pool in (pairs, triples, singles):
        rng.shuffle(pool)
    picked = []
    for pool in (pairs, triples, singles):          # at least one of each shape when there is room
        if len(picked) < N - nb:
            picked.append(pool.pop())
    rest = pairs + triples + singles
    rng.shuffle(rest)
    picked += rest[:N - nb - len(picked)]
    labs = base + picked
    rng.shuffle(labs)
    return labs


class Labels:
    def __init__(self, m, rep):
        rng = random.Random(rep["seed"])
        self.a = make_labels(rep["alabels"], m["K"], "a", rng)
        if rep["labels"] == "collide":
            self.s = colliding_labels(m["N"], m["K"], rng)
        else:
            self.s = make_labels(rep["labels"], m["N"], "s", rng)
        self._si = {l: i for i, l in enumerate(self.s)}
        self._ai = {l: i for i, l in enumerate(self.a)}
        self.rng = rng
        self.sortable = rep["labels"] in ("int", "str", "tuple")
        self.asortable = rep["alabels"] in ("int", "str", "tuple")

    def sidx(self, lab):
        return self._si[lab]

    def aidx(self, lab):
        return self._ai[lab]


def functions(m, L, rep):
    from msdm.core.distributions import DictDistribution, DeterministicDistribution, UniformDistribution
    N, K, PD, ID = m["N"], m["K"], m["PD"], m["ID"]
    kind = rep["dist"]
    # kinds of the values the callables answer with: python bool / float, or numpy scalars, or 0/1 ints
    # (truthy non-bool answers of is_absorbing are as good as True; numpy floats are numbers like any other)
    vk = rep["seed"] % 3
    num = (lambda x: np.float64(x)) if vk == 1 else float
    absval = {0: bool, 1: np.bool_, 2: int}[vk]
    rew = {0: float, 1: np.float64, 2: (lambda x: np.int64(x))}[vk]

    def mk(pairs):
        nz = [(e, p) for e, p in pairs if p > 0]
        if len(nz) < len(pairs):                       # explicit zero entries need a dictionary
            return DictDistribution({e: num(float(p)) for e, p in pairs})
        if kind == "det" and len(nz) == 1:
            return DeterministicDistribution(nz[0][0])
        if kind == "uniform" and len({p for _, p in nz}) == 1:
            return UniformDistribution([e for e, _ in nz])
        return DictDistribution({e: num(float(p)) for e, p in nz})

    def nsd(s, a):
        i, j = L.sidx(s), L.aidx(a)
        return mk([(L.s[t], F(m["P"][i][j][t], PD)) for t in range(N) if m["P"][i][j][t] > 0 or m["Z"][i][j][t]])

    def reward(s, a, ns):
        return rew(m["R"][L.sidx(s)][L.aidx(a)][L.sidx(ns)])

    def actions(s):
        return tuple(L.a[a] for a in range(K) if m["avail"][L.sidx(s)][a])

    def isd():
        return mk([(L.s[t], F(m["p0"][t], ID)) for t in range(N) if m["p0"][t] > 0 or m["Z0"][t]])

    def is_abs(s):
        return absval(m["abs"][L.sidx(s)])
    return nsd, reward, actions, isd, is_abs


def set_lists(mdp, m, L, rep):
    if m["explicit"]:
        mdp._state_list = [L.s[i - 1] for i in m["order"]]
    if m["aexplicit"]:
        mdp._action_list = tuple(L.a[i - 1] for i in m["aorder"])


def build(m, rep, kind, const=None):
    """kind: subclass | quick | wrap | wrap_obj | quickmdp | matrices | const"""
    from msdm.core.mdp import TabularMarkovDecisionProcess, QuickTabularMDP, QuickMDP
    L = Labels(m, rep)
    nsd, reward, actions, isd, is_abs = functions(m, L, rep)
    g = float(F(m["GN"], m["GD"]))
    if m["GN"] == 0 and rep["seed"] % 2 == 0:
        g = 0                                 # discount 0 as an int and as a float (both falsy)

    def subclass():
        class _M(TabularMarkovDecisionProcess):
            discount_rate = g

            def next_state_dist(self, s, a):
                return nsd(s, a)

            def reward(self, s, a, ns):
                return reward(s, a, ns)

            def actions(self, s):
                return actions(s)

            def initial_state_dist(self):
                return isd()

            def is_absorbing(self, s):
                return is_abs(s)
        return _M()
    if kind == "subclass":
        mdp = subclass()
    elif kind == "quick":
        mdp = QuickTabularMDP(next_state_dist=nsd, reward=reward, actions=actions, initial_state_dist=isd,
                              is_absorbing=is_abs, discount_rate=g)
    elif kind in ("wrap", "wrap_obj"):        # the quick constructor around the functions of another MDP
        o = subclass()
        mdp = QuickTabularMDP(o.next_state_dist, reward=o.reward, actions=o.actions,
                              initial_state_dist=(o.initial_state_dist if kind == "wrap" else o.initial_state_dist()),
                              is_absorbing=o.is_absorbing, discount_rate=o.discount_rate)
    elif kind == "quickmdp":
        mdp = QuickMDP(next_state_dist=nsd, reward=reward, actions=actions, initial_state_dist=isd(),
                       is_absorbing=is_abs, discount_rate=g)
        return mdp, L
    elif kind == "const":                     # constants / deterministic variants where the spec allows them
        kw = dict(is_absorbing=is_abs, discount_rate=g)
        kw["reward"] = float(m["R"][0][0][0]) if const["reward"] else reward
        if const["reward"] and L.rng.random() < 0.5:
            kw["reward"] = m["R"][0][0][0]                      # int constant (0 is falsy)
        kw["actions"] = (tuple(L.a) if L.rng.random() < 0.5 else list(L.a)) if const["actions"] else actions
        if const["det"]:
            kw["next_state"] = lambda s, a: L.s[m["P"][L.sidx(s)][L.aidx(a)].index(m["PD"])]
        else:
            kw["next_state_dist"] = nsd
        if const["init"]:
            kw["initial_state"] = L.s[next(t for t in range(m["N"]) if m["p0"][t] > 0)]
        else:
            kw["initial_state_dist"] = isd()
        mdp = QuickTabularMDP(**kw)
    elif kind == "matrices":
        N, K = m["N"], m["K"]
        keep = set(range(N)) if m["explicit"] else gen.reach(m)
        listed = [i - 1 for i in m["order"] if i - 1 in keep]      # the list handed to from_matrices, in this order
        pos = {s: i for i, s in enumerate(listed)}
        n = len(listed)
        tf, rf, am = np.zeros((n, K, n)), np.zeros((n, K, n)), np.zeros((n, K))
        # three times out of four the input arrays are hand-written DENSE ones (spec: DenseT / DenseR): dynamics
        # also under the actions the action matrix masks out, rewards also on zero-probability triples
        dense = rep["seed"] % 4 != 1
        for s in listed:
            for a in range(K):
                if m["avail"][s][a]:
                    am[pos[s], a] = 1
                for t in listed:
                    if dense or (m["avail"][s][a] and m["P"][s][a][t] > 0):
                        tf[pos[s], a, pos[t]] = float(F(m["P"][s][a][t], m["PD"]))
                        rf[pos[s], a, pos[t]] = m["R"][s][a][t]
        mdp = TabularMarkovDecisionProcess.from_matrices(
            state_list=tuple(L.s[s] for s in listed), action_list=tuple(L.a),
            initial_state_vec=np.array([float(F(m["p0"][s], m["ID"])) for s in listed]),
            transition_matrix=tf, action_matrix=am, reward_matrix=rf,
            absorbing_state_vec=np.array([bool(m["abs"][s]) for s in listed]), discount_rate=g)
        return mdp, L
    else:
        raise ValueError(kind)
    set_lists(mdp, m, L, rep)
    return mdp, L


# --------------------------------------------------------------------------------------------
# observing the real code (projection to abstract indices; everything json-able)
# --------------------------------------------------------------------------------------------
def _err(e):
    return f"{type(e).__name__}: {e}"[:200]


ARRAYS = ["transition_matrix", "reward_matrix", "action_matrix", "state_action_reward_matrix",
          "initial_state_vec", "absorbing_state_vec", "dead_end_state_vec", "reachable_state_vec",
          "_unable_to_reach_absorbing"]
TABLES = {"transition_table": "transition_matrix", "reward_table": "reward_matrix",
          "state_action_reward_table": "state_action_reward_matrix"}


def observe(mdp, L, m, *, tabular=True):
    """Run every observable of the statement on `mdp`; returns a json-able projection."""
    o = {"err": {}, "n": 0}

    def sset(xs):
        return sorted(L.sidx(s) for s in xs)
    try:
        o["reach"] = sset(mdp.reachable_states())
    except Exception as e:                                # noqa: BLE001
        o["err"]["reachable_states"] = _err(e)
    o["n"] += 1
    o["cuts"] = {}
    for k, c in enumerate(m["cuts"]):
        try:
            r = mdp.reachable_states(c) if k % 2 == 0 else mdp.reachable_states(max_states=c)
            o["cuts"][str(c)] = sset(r)
        except Exception as e:                            # noqa: BLE001
            o["err"][f"reachable_states({c})"] = _err(e)
        o["n"] += 1
    # call history on the SAME object: the result of every call depends on its own argument only, whatever was
    # asked before and however the argument is passed (keyword, positional, default)
    o["calls"] = []
    cuts = list(m["cuts"])
    hist = [("kw", c) for c in cuts] + [("noarg", INF)] + [("pos", c) for c in reversed(cuts)] \
        + [("kw", c) for c in reversed(cuts)] + [("kwinf", INF), ("pos", cuts[0]), ("noarg", INF)]
    for form, c in hist:
        try:
            if form == "kw":
                r = mdp.reachable_states(max_states=c)
            elif form == "pos":
                r = mdp.reachable_states(c)
            elif form == "kwinf":
                r = mdp.reachable_states(max_states=float("inf"))
            else:
                r = mdp.reachable_states()
            o["calls"].append([form, c, sset(r)])
        except Exception as e:                            # noqa: BLE001
            o["calls"].append([form, c, _err(e)])
        o["n"] += 1
    o["discount"] = float(mdp.discount_rate)
    # functional interface, point by point
    fn = {"actions": {}, "nsd": {}, "rew": {}, "abs": {}}
    try:
        fn["init"] = {str(L.sidx(s)): float(p) for s, p in mdp.initial_state_dist().items()}
    except Exception as e:                                # noqa: BLE001
        o["err"]["initial_state_dist"] = _err(e)
    o["fn"] = fn
    if not tabular:
        for s in range(m["N"]):
            try:
                acts = list(mdp.actions(L.s[s]))
                fn["actions"][str(s)] = [L.aidx(a) for a in acts]
                fn["abs"][str(s)] = bool(mdp.is_absorbing(L.s[s]))
                for a in acts:
                    d = mdp.next_state_dist(L.s[s], a)
                    key = f"{s},{L.aidx(a)}"
                    fn["nsd"][key] = {str(L.sidx(t)): float(p) for t, p in d.items()}
                    fn["rew"][key] = {str(L.sidx(t)): float(mdp.reward(L.s[s], a, t)) for t, p in d.items() if p > 0}
            except Exception as e:                        # noqa: BLE001
                o["err"][f"functions({s})"] = _err(e)
        o["n"] += 1
        return o
    # lists
    try:
        sl = list(mdp.state_list)
        o["sl"] = [L.sidx(s) for s in sl]
        o["sl_sorted"] = (sl == sorted(sl)) if L.sortable else None
        o["sl_type"] = type(mdp.state_list).__name__
    except Exception as e:                                # noqa: BLE001
        o["err"]["state_list"] = _err(e)
        return o
    try:
        al = list(mdp.action_list)
        o["al"] = [L.aidx(a) for a in al]
        o["al_sorted"] = (al == sorted(al)) if L.asortable else None
    except Exception as e:                                # noqa: BLE001
        o["err"]["action_list"] = _err(e)
        return o
    o["n"] += 2
    raw = {}
    for name in ARRAYS:
        try:
            arr = getattr(mdp, name)
            raw[name] = np.asarray(arr)
            o[name] = raw[name].tolist()
            o.setdefault("shape", {})[name] = list(raw[name].shape)
            o.setdefault("dtype", {})[name] = str(raw[name].dtype)
        except Exception as e:                            # noqa: BLE001
            o["err"][name] = _err(e)
        o["n"] += 1
    # tables: through the label interface every table must hold the array's numbers
    for tname, aname in TABLES.items():
        if aname not in raw:
            continue
        try:
            tb = getattr(mdp, tname)
            doms = [sl, al, sl] if raw[aname].ndim == 3 else [sl, al]
            o[tname] = {"bad": table_bad(tb, raw[aname], doms), "states": [L.sidx(x) for x in tb.state_list],
                        "actions": [L.aidx(x) for x in tb.action_list]}
        except Exception as e:                            # noqa: BLE001
            o["err"][tname] = _err(e)
        o["n"] += 1
    try:
        am = mdp.as_matrices()
        o["as_matrices"] = bool(
            list(am["ss"]) == sl and list(am["aa"]) == al and np.array_equal(am["tf"], raw["transition_matrix"])
            and np.array_equal(am["rf"], raw["reward_matrix"]) and np.array_equal(am["sarf"], raw["state_action_reward_matrix"])
            and np.array_equal(am["s0"], raw["initial_state_vec"]) and np.array_equal(am["rs"], raw["reachable_state_vec"]))
    except Exception as e:                                # noqa: BLE001
        if all(k in raw for k in ARRAYS[:5]):
            o["err"]["as_matrices"] = _err(e)
    return o


def table_bad(tb, arr, doms):
    """Label lookups of a msdm Table against its own array `arr` (fields in the order of `doms`):
      nested   tb[s][a][ns]   one field at a time
      full     tb[s, a, ns]   one tuple of field values - unless that tuple is itself an element of the outermost
                              domain: such a key always selects that element (its row)
      row      tb[s]          the sub-table of the outermost element
      list     tb[[s3, s1, s2]] a list of outermost labels (full length in another order, and a shorter one):
                              the rows of exactly these labels, in the order asked for
    Returns up to five mismatches as [mode, repr(key), got]."""
    arr = np.asarray(arr)
    outer = {lab: i for i, lab in enumerate(doms[0])}
    bad = []

    def same(v, ref):
        try:
            return np.array_equal(np.asarray(v, dtype=float), np.asarray(ref, dtype=float))
        except Exception:                                 # noqa: BLE001
            return False

    def note(mode, key, v):
        if len(bad) < 5:
            try:
                shown = v if isinstance(v, str) else repr(np.asarray(v, dtype=float).tolist())[:80]
            except Exception:                             # noqa: BLE001
                shown = repr(v)[:80]
            bad.append([mode, repr(key)[:80], shown])
    def look(fn):
        try:
            return fn()
        except BaseException as e:                        # noqa: BLE001 - msdm's DomainError is a BaseException
            if isinstance(e, (KeyboardInterrupt, SystemExit)):
                raise
            return f"raised {type(e).__name__}: {e}"[:80]

    def nested(key):
        v = tb
        for part in key:
            v = v[part]
        return v
    for i, lab in enumerate(doms[0]):
        v = look(lambda: tb[lab])
        if not same(v, arr[i]):
            note("row", lab, v)
    n = len(doms[0])
    if n >= 2:
        for order in ([(i + 1) % n for i in range(n)], list(range(n - 1, -1, -1)), [n - 1, 0][:max(1, n - 1)]):
            labs = [doms[0][i] for i in order]
            v = look(lambda: tb[labs])
            if not same(v, arr[order]):
                note("list", labs, v)
            elif hasattr(v, "table_index") and list(v.table_index.field_domains[0]) != labs:
                note("list-domain", labs, list(v.table_index.field_domains[0]))
    for idx in itertools.product(*[range(len(d)) for d in doms]):
        key = tuple(d[i] for d, i in zip(doms, idx))
        v = look(lambda: nested(key))
        if not same(v, arr[idx]):
            note("nested", key, v)
        v = look(lambda: tb[key])
        ref = arr[outer[key]] if key in outer else arr[idx]
        if not same(v, ref):
            note("full", key, v)
    return bad


def roundtrip(mdp):
    from msdm.core.mdp import TabularMarkovDecisionProcess
    return TabularMarkovDecisionProcess.from_matrices(
        state_list=mdp.state_list, action_list=mdp.action_list, initial_state_vec=mdp.initial_state_vec,
        transition_matrix=mdp.transition_matrix, action_matrix=mdp.action_matrix,
        reward_matrix=mdp.reward_matrix, absorbing_state_vec=mdp.absorbing_state_vec,
        discount_rate=mdp.discount_rate)


def plan(mdp, L, version):
    from msdm.algorithms import ValueIteration
    with warnings.catch_warnings():
        warnings.simplefilter("ignore")
        r = ValueIteration(max_iterations=5000, max_residual=VI_EPS, _version=version).plan_on(mdp)
    out = {"V": {}, "pol": {}, "init": float(r.initial_value)}
    sl, al = list(mdp.state_list), list(mdp.action_list)
    out["tables"] = {}
    for tname, doms in (("state_value", [sl]), ("action_value", [sl, al])):
        tb = getattr(r, tname, None)
        if tb is not None and hasattr(tb, "table_index") and [list(d) for d in tb.table_index.field_domains] == doms:
            out["tables"][tname] = table_bad(tb, np.asarray(tb), doms)
    for s in mdp.state_list:
        out["V"][str(L.sidx(s))] = float(r.state_value[s])
        out["pol"][str(L.sidx(s))] = {str(L.aidx(a)): float(p) for a, p in r.policy.action_dist(s).items() if p > 0}
    return out


def run_real(case, const):
    """All executions of the real code for one case: {objname: observation}."""
    m, rep = case["m"], case["rep"]
    objs = {}

    def one(name, kind, **kw):
        try:
            mdp, L = build(m, rep, kind, **kw)
        except Exception as e:                            # noqa: BLE001
            objs[name] = {"err": {"construct": _err(e)}, "n": 1}
            return None, None
        objs[name] = observe(mdp, L, m, tabular=(kind != "quickmdp"))
        objs[name]["kind"] = kind
        return mdp, L
    base, L = one("base", rep["base"])
    if base is not None and not any(k in objs["base"]["err"] for k in ARRAYS[:6] + ["state_list", "action_list"]):
        try:
            rt = roundtrip(base)
            objs["roundtrip"] = observe(rt, L, m)
            objs["roundtrip"]["kind"] = "roundtrip"
            objs["roundtrip"]["same_lists"] = bool(tuple(rt.state_list) == tuple(base.state_list)
                                                   and tuple(rt.action_list) == tuple(base.action_list))
            objs["roundtrip"]["same_arrays"] = {
                name: bool(np.array_equal(np.asarray(getattr(rt, name)), np.asarray(getattr(base, name))))
                for name in ARRAYS if name not in objs["base"]["err"] and name not in objs["roundtrip"]["err"]}
            if m["plan"]:
                for ver in ("vectorized", "dict"):
                    for nm, ob in (("base", base), ("roundtrip", rt)):
                        try:
                            objs[nm][f"plan_{ver}"] = plan(ob, L, ver)
                        except Exception as e:            # noqa: BLE001
                            objs[nm]["err"][f"plan_{ver}"] = _err(e)
                        objs[nm]["n"] += 1
        except Exception as e:                            # noqa: BLE001
            objs["roundtrip"] = {"err": {"from_matrices": _err(e)}, "n": 1, "kind": "roundtrip"}
    extra, L2 = one("extra", rep["extra"])
    if extra is not None and m["plan"] and rep["extra"] in ("wrap", "wrap_obj") and not objs["extra"]["err"]:
        try:
            objs["extra"]["plan_vectorized"] = plan(extra, L2, "vectorized")
        except Exception as e:                            # noqa: BLE001
            objs["extra"]["err"]["plan_vectorized"] = _err(e)
    if const is not None and any(const.values()):
        one("const", "const", const=const)
    return objs


# --------------------------------------------------------------------------------------------
# judging
# --------------------------------------------------------------------------------------------
def judge_cases(ctx, cases, *, real=None):
    batch = [c["m"] for c in cases]
    res = run_tlc(ctx.workdir / "mc", "C06_Views", CFG, files={"batch.json": batch},
                  env={"BATCH_FILE": "batch.json"})
    ctx.add_tlc(res, "mc: reachability machine (all pop orders x cut-offs), "
                     "array / derived / rebuild steps, views oracle")
    bad = [v for v in res.violated if v in DESIGN_INVS]
    if bad:
        raise TLCFailure(f"design-level invariant violated in C06_Views: {sorted(set(bad))}\n"
                         + (res.traces[0][:3000] if res.traces else ""))
    # per-action counts (vacuity check) from the records: every views record went through MkList, one FillRow
    # per listed state, Derive and Rebuild; every record ended the search with ReachEnd; the rest are Pop steps
    nv = sum(1 for r in res.records if r["kind"] == "views")
    acts = ctx.extra.setdefault("action_counts", {"Init": 0, "Pop": 0, "ReachEnd": 0, "MkList": 0, "FillRow": 0,
                                                  "Derive": 0, "Rebuild": 0})
    inits = sum(1 + len(set(c["m"]["cuts"])) for c in cases)
    rows = sum(len(r["lst"]) for r in res.records if r["kind"] == "views")
    acts["Init"] += inits
    acts["ReachEnd"] += len(res.records)
    acts["MkList"] += nv
    acts["Derive"] += nv
    acts["Rebuild"] += nv
    acts["FillRow"] += rows
    acts["Pop"] += max(0, res.generated - inits - len(res.records) - 3 * nv - rows)
    views, mach = {}, {}
    for r in res.records:
        if r["kind"] == "views":
            views[r["iid"]] = r
        else:
            mach.setdefault((r["iid"], r["cut"]), set()).add(frozenset(x - 1 for x in r["visited"]))
    for i, c in enumerate(cases, start=1):
        m = c["m"]
        rec = views.get(i)
        if rec is None:
            raise TLCFailure(f"no views record for case {i}")
        cuts = [{frozenset(x - 1 for x in s) for s in sets} for sets in rec["cuts"]]
        # the machine's terminal states are exactly the oracle's results (model-level cross-check)
        for k, cut in enumerate(m["cuts"]):
            if mach.get((i, cut), set()) != cuts[k]:
                raise TLCFailure(f"machine terminals != CutResults for case {i} cut {cut}")
        if i % 3 == 0 or len(cases) < 20:
            crosscheck(i, m, rec, cuts)
            ctx.count("oracle_crosschecks")
        for key in ("ghostout", "zeroout", "absinit"):       # corner inputs named by the quantifier
            if rec[key]:
                ctx.count(f"corner_{key}_instances")
        objs = real[i - 1] if real is not None else run_real(c, rec["const"])
        ctx.evaluations += sum(o.get("n", 0) for o in objs.values())
        judge_one(ctx, i, c, rec, cuts, objs)


class Judge:
    def __init__(self, ctx, case, rec, cuts):
        self.ctx, self.case, self.rec = ctx, case, rec
        self.m = m = case["m"]
        self.N, self.K = m["N"], m["K"]
        one = lambda xs: {x - 1 for x in xs}
        self.reach = one(rec["reach"])
        self.absall, self.dead, self.cannot = one(rec["absall"]), one(rec["dead"]), one(rec["cannot"])
        self.cuts = cuts
        self.T, self.R, self.A = rec["T"], rec["R"], rec["A"]
        self.ok = True
        self.seen = set()

    def fail(self, site, shape, what, obj):
        self.ok = False
        if (obj, site, shape) in self.seen:       # one report per object, call site and shape
            return
        self.seen.add((obj, site, shape))
        site = site or "TabularMarkovDecisionProcess"
        self.ctx.violation(f"C06:{site}:{shape}", f"{site}: {what}",
                           {"case": self.case, "object": obj, "clause": shape})

    # ---- reachability (tabular and non-tabular objects)
    def reachability(self, name, o, site):
        m = self.m
        if "reachable_states" in o["err"]:
            self.fail(j(site, "reachable_states"), "error", f"raised {o['err']['reachable_states']}", name)
        elif "reach" in o:
            got = set(o["reach"])
            if got != self.reach:
                if got - self.reach:
                    shape = "unreachable-state-included"
                else:
                    shape = "reachable-state-missing"
                self.fail(j(site, "reachable_states"), shape,
                          f"returned states {sorted(got)} but the states reachable with positive probability "
                          f"(absorbing states not expanded) are {sorted(self.reach)}", name)
        for k, c in enumerate(m["cuts"]):
            key = f"reachable_states({c})"
            if key in o["err"]:
                self.fail(j(site, "reachable_states"), "max_states-error", f"max_states={c} raised {o['err'][key]}", name)
                continue
            if str(c) not in o["cuts"]:
                continue
            self.cut_result(name, site, k, c, frozenset(o["cuts"][str(c)]), "first call")
        # the call history on the same object (spec: every result is admissible for ITS OWN argument)
        for n_call, (form, c, got) in enumerate(o.get("calls", []), start=1):
            how = {"kw": f"max_states={c} by keyword", "pos": f"max_states={c} positionally", "kwinf": "max_states=inf by keyword",
                   "noarg": "no argument"}[form] + f", call {n_call} of the history on one object"
            if isinstance(got, str):
                self.fail(j(site, "reachable_states"), "call-history-error", f"{how}: raised {got}", name)
            elif c == INF:
                if set(got) != self.reach:
                    self.fail(j(site, "reachable_states"), "call-history",
                              f"{how}: returned {sorted(got)} but the reachable set is {sorted(self.reach)}", name)
            else:
                self.cut_result(name, site, m["cuts"].index(c), c, frozenset(got), how, shape="call-history")

    def cut_result(self, name, site, k, c, got, how, shape="max_states-cutoff"):
        m = self.m
        s0 = {s for s in range(self.N) if m["p0"][s] > 0}
        if got in self.cuts[k]:
            return
        # not one of the results the cut-off admits (any pop order): wrong, whatever the reason
        if not (s0 <= got):
            why = "initial support missing"
        elif not (got <= self.reach):
            why = "contains states that are not reachable"
        elif len(self.reach) <= c and got != self.reach:
            why = "cut although the limit was not reached"
        elif len(got) < min(c, len(self.reach)):
            why = "stopped before the limit was reached"
        elif len(got) > c:
            why = "kept expanding after max_states states were known"
        else:
            why = "no order of expanding non-absorbing states produces this set"
        self.fail(j(site, "reachable_states"), shape,
                  f"max_states={c} ({how}): returned {sorted(got)}: {why} (admissible results "
                  f"{sorted(map(sorted, self.cuts[k]))})", name)

    # ---- functional interface of wrappers (QuickMDP, non tabular)
    def functional(self, name, o, site):
        m, fn = self.m, o["fn"]
        for k in o["err"]:
            if k.startswith("functions") or k in ("initial_state_dist", "construct"):
                self.fail(site, "error", f"{k} raised {o['err'][k]}", name)
                return
        if abs(o["discount"] - float(F(m["GN"], m["GD"]))) > 0:
            self.fail(site, "discount-rate", f"discount {o['discount']}", name)
        exp_init = {str(s): float(F(m["p0"][s], m["ID"])) for s in range(self.N) if m["p0"][s] > 0}
        if {k: v for k, v in fn.get("init", {}).items() if v > 0} != exp_init:
            self.fail(site, "initial-state-dist", f"initial distribution {fn.get('init')} != {exp_init}", name)
        for s in range(self.N):
            av = [a for a in range(self.K) if self.A[s][a]]
            if sorted(fn["actions"].get(str(s), [])) != av or len(fn["actions"].get(str(s), [])) != len(av):
                self.fail(site, "actions", f"actions({s}) = {fn['actions'].get(str(s))} != {av}", name)
                continue
            if fn["abs"][str(s)] != bool(m["abs"][s]):
                self.fail(site, "is-absorbing", f"is_absorbing({s}) = {fn['abs'][str(s)]}", name)
            for a in av:
                d = {int(t): p for t, p in fn["nsd"][f"{s},{a}"].items() if p > 0}
                e = {t: float(F(self.T[s][a][t], m["PD"])) for t in range(self.N) if self.T[s][a][t] > 0}
                if d != e:
                    self.fail(site, "next-state-dist", f"next_state_dist({s},{a}) = {d} != {e}", name)
                r = {int(t): x for t, x in fn["rew"][f"{s},{a}"].items()}
                er = {t: float(self.R[s][a][t]) for t in e}
                if r != er:
                    self.fail(site, "reward", f"reward({s},{a},.) = {r} != {er}", name)

    # ---- lists and arrays of a tabular object
    def tabular(self, name, o, site, *, explicit, listed_expected=None, given_order=None, given_actions=None):
        """Returns True when every compared cell was equal."""
        m, ctx = self.m, self.ctx
        before = self.ok
        self.ok = True
        if "construct" in o["err"]:
            self.fail(site, "error", f"constructor raised {o['err']['construct']}", name)
            return self._restore(before)
        for k in ("state_list", "action_list"):
            if k in o["err"]:
                self.fail(j(site, k), "error", f"raised {o['err'][k]}", name)
                return self._restore(before)
        g = float(F(m["GN"], m["GD"]))
        if o["discount"] != g:
            self.fail(site, "discount-rate", f"discount_rate {o['discount']} != {g}", name)
        sl, al = o["sl"], o["al"]
        if len(set(sl)) != len(sl):
            self.fail(j(site, "state_list"), "duplicates", f"state list has duplicates: {sl}", name)
            return self._restore(before)
        if len(set(al)) != len(al):
            self.fail(j(site, "action_list"), "duplicates", f"action list has duplicates: {al}", name)
            return self._restore(before)
        want = listed_expected if listed_expected is not None else (set(range(self.N)) if explicit else self.reach)
        if set(sl) != want:
            if set(sl) - want:
                shape = "unreachable-state-included" if not explicit else "not-the-given-list"
            else:
                shape = "reachable-state-missing" if not explicit else "not-the-given-list"
            self.fail(j(site, "state_list"), shape, f"state list {sorted(sl)} but expected {sorted(want)}", name)
        # an explicitly given list IS the list, in the order given (arrays are indexed by position)
        if given_order is not None and set(sl) == want and sl != given_order:
            self.fail(j(site, "state_list"), "explicit-list-order",
                      f"state list {sl} is not the explicitly given list {given_order} (same states, other order)", name)
        if given_actions is not None and set(al) == set(given_actions) and al != given_actions:
            self.fail(j(site, "action_list"), "explicit-list-order",
                      f"action list {al} is not the explicitly given list {given_actions} (same actions, other order)", name)
        used = {a for s in sl for a in range(self.K) if self.A[s][a]}
        if not used <= set(al):
            self.fail(j(site, "action_list"), "available-action-missing", f"action list {al} lacks actions of {sorted(used)}", name)
            return self._restore(before)
        if o.get("actions_inferred") and set(al) != used:
            ctx.drift("action_list-extra", {"case": digest(self.case), "al": al, "used": sorted(used)})
        if o.get("sl_sorted") is False and not explicit:
            ctx.drift("state_list-order", {"case": digest(self.case), "obj": name})
        if o.get("al_sorted") is False and o.get("actions_inferred"):
            ctx.drift("action_list-order", {"case": digest(self.case), "obj": name})
        L = set(sl)
        # errors of the array builders
        root = next((k for k in ("transition_matrix", "reward_matrix", "action_matrix", "initial_state_vec") if k in o["err"]), None)
        if root:
            self.fail(j(site, root), "error", f"raised {o['err'][root]} (state list {sorted(sl)})", name)
            ctx.skip("arrays not constructible: remaining array clauses of this object not compared")
            return self._restore(before)
        n, k = len(sl), len(al)
        shapes = {"transition_matrix": [n, k, n], "reward_matrix": [n, k, n], "action_matrix": [n, k],
                  "state_action_reward_matrix": [n, k], "initial_state_vec": [n], "absorbing_state_vec": [n],
                  "dead_end_state_vec": [n], "reachable_state_vec": [n], "_unable_to_reach_absorbing": [n]}
        for aname, shp in shapes.items():
            if aname in o["err"]:
                self.fail(j(site, aname), "error", f"raised {o['err'][aname]}", name)
            elif o["shape"][aname] != shp:
                self.fail(j(site, aname), "shape", f"shape {o['shape'][aname]} != {shp}", name)
        if not self.ok:
            return self._restore(before)
        PD, ID = m["PD"], m["ID"]
        tm, rm, amx, sar = o["transition_matrix"], o["reward_matrix"], o["action_matrix"], o["state_action_reward_matrix"]
        for si, s in enumerate(sl):
            for ai in range(k):
                a = al[ai]
                if amx[si][ai] != self.A[s][a]:
                    self.fail(j(site, "action_matrix"), "cell", f"action_matrix[{s},{a}] = {amx[si][ai]} but available = {self.A[s][a]}", name)
                esar = F(0)
                for ti, t in enumerate(sl):
                    et = float(F(self.T[s][a][t], PD))
                    if tm[si][ai][ti] != et:
                        shape = "unavailable-action-row" if not self.A[s][a] else ("absorbing-state-row" if m["abs"][s] else "cell")
                        self.fail(j(site, "transition_matrix"), shape,
                                  f"transition_matrix[{s},{a},{t}] = {tm[si][ai][ti]} but the function gives {et}", name)
                    er = float(self.R[s][a][t])
                    if rm[si][ai][ti] != er:
                        if self.A[s][a] and self.T[s][a][t] == 0 and m["Z"][s][a][t] and rm[si][ai][ti] == m["R"][s][a][t]:
                            ctx.drift("reward_matrix-zero-probability-entry", {"case": digest(self.case), "cell": [s, a, t]})
                        else:
                            shape = "unavailable-action-row" if not self.A[s][a] else ("absorbing-state-row" if m["abs"][s] else "cell")
                            self.fail(j(site, "reward_matrix"), shape,
                                      f"reward_matrix[{s},{a},{t}] = {rm[si][ai][ti]} but the function gives {er}", name)
                    esar += F(self.T[s][a][t], PD) * self.R[s][a][t]
                if abs(sar[si][ai] - float(esar)) > 1e-12 * max(1.0, abs(float(esar))):
                    self.fail(j(site, "state_action_reward_matrix"), "cell",
                              f"state_action_reward_matrix[{s},{a}] = {sar[si][ai]} but sum T*R = {float(esar)}", name)
            if o["initial_state_vec"][si] != float(F(m["p0"][s], ID)):
                self.fail(j(site, "initial_state_vec"), "cell", f"initial_state_vec[{s}] = {o['initial_state_vec'][si]} != {m['p0'][s]}/{ID}", name)
            for aname, truth, shape in (("absorbing_state_vec", self.absall, "cell"), ("dead_end_state_vec", self.dead, "cell"),
                                        ("reachable_state_vec", self.reach, "cell"),
                                        ("_unable_to_reach_absorbing", self.cannot, "cell")):
                if bool(o[aname][si]) != (s in truth):
                    if aname == "_unable_to_reach_absorbing" and not self._closed(L):
                        ctx.skip("cannot-reach vector on a list that is not closed under successors: not compared")
                        continue
                    self.fail(j(site, aname), shape, f"{aname}[{s}] = {o[aname][si]} but expected {s in truth}", name)
        # the spec's own list-keyed sums when the list is the expected one
        if sl and set(sl) == {x - 1 for x in self.rec["lst"]} and name == "base":
            for si, s in enumerate(sl):
                li = self.rec["lst"].index(s + 1)
                for ai, a in enumerate(al):
                    e = float(F(self.rec["lsar"][li][a], PD))
                    if abs(sar[si][ai] - e) > 1e-12 * max(1.0, abs(e)):
                        self.fail(j(site, "state_action_reward_matrix"), "cell", f"sar[{s},{a}] = {sar[si][ai]} != {e}", name)
        for tname in TABLES:
            if tname in o["err"]:
                self.fail(j(site, tname), "error", f"raised {o['err'][tname]}", name)
            elif tname in o:
                if o[tname]["bad"]:
                    self.fail(j(site, tname), "cell", f"label lookups [mode, key, got] differ from the array: {o[tname]['bad']}", name)
                if o[tname]["states"] != sl or o[tname]["actions"] != al:
                    self.fail(j(site, tname), "domains", "table domains differ from state_list / action_list", name)
        if "as_matrices" in o["err"]:
            self.fail(j(site, "as_matrices"), "error", f"raised {o['err']['as_matrices']}", name)
        elif o.get("as_matrices") is False:
            self.fail(j(site, "as_matrices"), "cell", "as_matrices() differs from the array properties", name)
        return self._restore(before)

    def _closed(self, L):
        return all(t in L for s in L if not self.m["abs"][s] for a in range(self.K) for t in range(self.N) if self.T[s][a][t] > 0)

    def _restore(self, before):
        good = self.ok
        self.ok = before and good
        return good

    # ---- planning results
    def planning(self, name, o, site, other=None):
        m = self.m
        vstar = [frac(x) for x in self.rec["vstar"]]
        g = float(F(m["GN"], m["GD"]))
        bound = VI_EPS / (1 - g)
        for ver in ("vectorized", "dict"):
            key = f"plan_{ver}"
            if key in o["err"]:
                self.fail(j(site, "plan"), "error", f"ValueIteration[{ver}] raised {o['err'][key]}", name)
                continue
            if key not in o:
                continue
            p = o[key]
            for tname, bad in p.get("tables", {}).items():
                if bad:
                    self.fail(j(site, "plan"), "value-table-lookup",
                              f"ValueIteration[{ver}].{tname}: label lookups differ from the table's own array: {bad}", name)
            for s, v in p["V"].items():
                e = 0.0 if m["abs"][int(s)] else float(vstar[int(s)])
                if abs(v - e) > bound + 1e-9 * max(1.0, abs(e)):
                    self.fail(j(site, "plan"), "planning-value", f"ValueIteration[{ver}] value {v} at state {s}, optimal {e}", name)
                    break
            if other is not None and key in other:
                q = other[key]
                same = p["V"].keys() == q["V"].keys() and all(abs(p["V"][s] - q["V"][s]) <= 1e-12 * max(1, abs(q["V"][s])) for s in p["V"]) \
                    and p["pol"] == q["pol"] and abs(p["init"] - q["init"]) <= 1e-12 * max(1, abs(q["init"]))
                if not same:
                    self.fail(j(site, "plan"), "planning-results-differ",
                              f"ValueIteration[{ver}] on the rebuilt MDP differs from the original: {p} vs {q}", name)


def judge_one(ctx, i, c, rec, cuts, objs):
    m, rep = c["m"], c["rep"]
    J = Judge(ctx, c, rec, cuts)
    explicit = bool(m["explicit"])
    allgood = True
    for name, o in objs.items():
        kind = o.get("kind") or {"base": rep["base"], "extra": rep["extra"]}.get(name, name)
        o["actions_inferred"] = (not rep.get("explicit_actions")) and kind in ("subclass", "quick", "wrap", "wrap_obj", "const")
        J.ok = True
        if "construct" in o["err"] or "from_matrices" in o["err"]:
            site = {"roundtrip": "from_matrices"}.get(name, f"{_site(kind)}")
            J.fail(site, "error", f"construction raised {list(o['err'].values())[0]}", name)
            allgood = False
            continue
        site = _site(kind)
        J.reachability(name, o, site)
        if kind == "quickmdp":
            J.functional(name, o, site)
        elif kind == "roundtrip":
            base = objs["base"]
            J.tabular(name, o, site, explicit=True, listed_expected=set(base.get("sl", [])),
                      given_order=base.get("sl"), given_actions=base.get("al"))
            if o.get("same_lists") is False:
                J.fail("from_matrices", "lists-differ", "state / action list of the rebuilt MDP differ from the original's", name)
            for aname, same in o.get("same_arrays", {}).items():
                if not same:
                    J.fail(f"from_matrices.{aname}", "round-trip-differs", f"{aname} of the rebuilt MDP differs from the original's", name)
            if o.get("discount") != base.get("discount"):
                J.fail("from_matrices", "discount-rate", "discount rate of the rebuilt MDP differs", name)
            if m["plan"]:
                J.planning(name, o, site, other=base)
        elif kind == "matrices":
            keep = set(range(m["N"])) if explicit else J.reach
            J.tabular(name, o, site, explicit=True, listed_expected=keep,
                      given_order=[i - 1 for i in m["order"] if i - 1 in keep], given_actions=list(range(m["K"])))
        else:
            # the spec's lists: lst is the given order when explicit; alst the given action order when aexplicit
            J.tabular(name, o, site, explicit=explicit,
                      given_order=[x - 1 for x in rec["lst"]] if explicit else None,
                      given_actions=[x - 1 for x in rec["alst"]] if m["aexplicit"] else None)
            if m["plan"]:
                J.planning(name, o, site)
        if J.ok:
            ctx.validated += 1
        else:
            allgood = False
    # non-triviality (rule in run())
    listed = set(range(m["N"])) if explicit else J.reach
    unavailable = any(not m["avail"][s][a] for s in listed for a in range(m["K"]))
    ghosty = any(m["abs"][s] and any(m["avail"][s]) for s in listed)
    if len(listed) >= 3 and unavailable and (J.reach != set(range(m["N"])) or ghosty):
        ctx.nontrivial(digest([m, rep]))
    ctx.count(f"style_{c.get('style', '?')}")
    if m["PD"] >= 10 ** 8:
        ctx.skip("planning clause not evaluated on the rare-probability family (exact optimal values would overflow 30 bits)")
        dropped = dict(m, P=[[[x if x > 10 else 0 for x in row] for row in sa] for sa in m["P"]],
                       p0=[x if x > 10 else 0 for x in m["p0"]])
        if any(m["p0"]) and any(dropped["p0"]) and gen.reach(dropped) != J.reach:
            ctx.count("rare_instances_with_a_state_reachable_only_through_a_tiny_entry")
    ctx.sample({"instance": {k: m[k] for k in ("N", "K", "PD", "GN", "GD", "ID", "abs", "avail", "P", "R", "p0", "Z", "Z0", "explicit", "cuts")},
                "rep": rep, "reach": sorted(J.reach), "cut_results": [sorted(map(sorted, s)) for s in cuts],
                "real_state_list": objs.get("base", {}).get("sl")})
    return allgood


def j(site, meth):
    return f"{site}.{meth}" if site else meth


def _site(kind):
    return {"subclass": "", "quick": "", "wrap": "QuickTabularMDP[wrapped]",
            "wrap_obj": "QuickTabularMDP[wrapped]", "const": "QuickTabularMDP[constants]", "quickmdp": "QuickMDP",
            "matrices": "from_matrices", "roundtrip": "from_matrices"}[kind]


# --------------------------------------------------------------------------------------------
def run(ctx):
    rng = random.Random(ctx.seed * 104729 + 6)
    n = 640 if ctx.tier == "quick" else 6000
    ctx.rule = ("random members of the C06 family (1-4 ordinary + 0-2 explicitly absorbing states with ghost dynamics, dead ends, "
                "implicitly absorbing states, absorbing initial states, zero-probability entries inside and outside the list, "
                "rare-probability rows / initial distributions with entries of 1e-9 and 1e-8 over denominators 10^8 / 10^9, "
                "explicit shuffled or inferred lists, >= 2 max_states cut-offs 0..N+1 asked in a call history on one object "
                "(keyword / positional / default, repeated and reversed)) x label kinds x distribution classes x answers of the "
                "callables as python / numpy / int values x "
                "constructors; non-trivial = >= 3 listed states, some listed state with an unavailable action, and either an "
                "unreachable state or a listed absorbing state with outgoing ghost dynamics")
    ctx.assumptions = ["TLC evaluates the TLA+ views correctly (cross-checked against an independent Python oracle on every 3rd case; "
                       "the machine's terminal states are compared with the recursive CutResults oracle on every case)",
                       "cells are compared exactly; state_action_reward_matrix with 1e-12 relative slack (sum of <= 7 products)"]
    cases = make_cases(rng, n)
    # TLC's -coverage 1 exhausts the heap on this module (recursive oracle operators), so it is never used;
    # per-action counts are derived from the emitted records instead (ctx.extra["action_counts"])
    chunk = 640 if ctx.tier == "quick" else 500
    for k in range(0, len(cases), chunk):
        judge_cases(ctx, cases[k:k + chunk])


def replay(ctx, case):
    judge_cases(ctx, [case["case"]])


def selftest(ctx):
    """Binding demonstration on three cases that are clean when untouched:
    (1) corrupt one array cell returned by the real code, (2) drop a state from a reachable set returned by the
    real code, (3) hand msdm an instance that differs from the one TLC saw.  Each must be reported, and the
    untouched cases must not be."""
    import copy
    rng = random.Random(11)
    cases = [c for c in make_cases(rng, 60) if c["style"] in ("clean", "plan", "const")][:24]
    # const flags are needed to build: take them from a first TLC pass over the instances
    res = run_tlc(ctx.workdir / "pre", "C06_Views", CFG, files={"batch.json": [c["m"] for c in cases]},
                  env={"BATCH_FILE": "batch.json"})
    const = {r["iid"]: r["const"] for r in res.records if r["kind"] == "views"}
    real = [run_real(c, const[i]) for i, c in enumerate(cases, start=1)]
    picks = [i for i, o in enumerate(real) if "transition_matrix" in o["base"] and len(o["base"]["sl"]) >= 2
             and len(o["base"].get("reach", [])) >= 2 and sum(1 for x in cases[i]["m"]["p0"] if x > 0) == 1][:3]
    if len(picks) < 3:
        return False
    sub = [cases[i] for i in picks]
    before = len(ctx.violations)
    judge_cases(ctx, sub, real=[real[i] for i in picks])
    clean = len(ctx.violations) == before
    outcomes = []
    # (1)
    r1 = copy.deepcopy(real[picks[0]])
    r1["base"]["transition_matrix"][0][0][0] += 0.25
    before = len(ctx.violations)
    judge_cases(ctx, [sub[0]], real=[r1])
    outcomes.append(any("transition_matrix" in v[0] for v in ctx.violations[before:]))
    # (2)
    r2 = copy.deepcopy(real[picks[1]])
    r2["base"]["reach"] = r2["base"]["reach"][:-1]
    before = len(ctx.violations)
    judge_cases(ctx, [sub[1]], real=[r2])
    outcomes.append(any("reachable_states" in v[0] for v in ctx.violations[before:]))
    # (3) msdm gets a different instance than TLC: the initial state moves to another state
    other = copy.deepcopy(sub[2])
    p0 = other["m"]["p0"]
    j0 = next(k for k in range(len(p0)) if p0[k] > 0)
    p0[(j0 + 1) % len(p0)], p0[j0] = p0[j0], 0
    before = len(ctx.violations)
    judge_cases(ctx, [sub[2]], real=[run_real(other, const[picks[2] + 1])])
    outcomes.append(any("initial_state_vec" in v[0] or "initial-state-dist" in v[0] for v in ctx.violations[before:]))
    print(f"  selftest: untouched cases clean={clean}, corrupted cell detected={outcomes[0]}, "
          f"dropped state detected={outcomes[1]}, foreign instance detected={outcomes[2]}")
    return clean and all(outcomes)
