"""C20 - the built-in domains define well-formed models for every layout and parameter; the plain
grid world moves the agent exactly as the statement says.

Pipelines (all verdicts come from TLC or from comparing the real code with what TLC printed):
  MC   spec/C20_GridWorld.tla, mode "mc": every layout of the small sizes x success probabilities x
       every starting cell x every walk; invariants + action properties of the reference machine.
  A1   spec/C20_GridWorld.tla, mode "emit": for a batch of layouts / options TLC prints the exact table
       (distribution + reward per state and command, initial support, exact optimal values); the real
       GridWorld is built from the same case in several input representations and every
       (state, action) is replayed: next_state_dist, reward, is_absorbing, initial_state_dist,
       state_list, the arrays and ValueIteration.
  A2   spec/C20_WellFormed.tla: the functional interface of a real domain object (all six domains) is
       dumped into an extracted transition system; TLC walks it and decides normalisation, successors
       inside the state list, finite rewards, >= 1 action, observation kernels.  The arrays are then
       built and planned on.
  A3   spec/C20_Domains.tla: reference dynamics of the five other domains; TLC walks them and prints the
       table of every reachable state; differences with the real code are DRIFT (the statement only asks
       well-formedness of those five).
"""
import itertools
import math
import random
import threading
import time
import traceback
import warnings
from fractions import Fraction as F

from ..core import digest
from ..tlc import run_tlc, TLCFailure

SCALE = 10 ** 8
DSCALE = 10 ** 6
NOVAL = -100000000
TOL = 1e-9
GW_ACTS = [(-1, 0), (0, -1), (0, 0), (0, 1), (1, 0)]
T = (-1, -1)

GW_CFG = """INIT Init
NEXT Next
CHECK_DEADLOCK FALSE
INVARIANT Emit
INVARIANT TypeOK
INVARIANT MachineMatchesOracle
INVARIANT Normalised
INVARIANT AsCommanded
INVARIANT SuccessProbability
INVARIANT AbsorbingToTerminal
INVARIANT RewardClause
INVARIANT ValueIsFixpoint
INVARIANT ValueAgreesWithMDPOracle
PROPERTY NeverEntersWall
PROPERTY OnlyAsCommanded
PROPERTY TerminalDiscipline
PROPERTY DegenerateProbabilities
PROPERTY LayoutFixed
VIEW View
"""
WF_CFG = """INIT Init
NEXT Next
CHECK_DEADLOCK FALSE
INVARIANT Emit
INVARIANT TypeOK
INVARIANT WellFormedState
INVARIANT WellFormedInit
INVARIANT WellFormedModel
"""
DOM_CFG = """INIT Init
NEXT Next
CHECK_DEADLOCK FALSE
INVARIANT Emit
INVARIANT ModelNormalised
INVARIANT ModelObsNormalised
INVARIANT OnGrid
INVARIANT LoadDiscipline
PROPERTY HeavenFixed
PROPERTY CliffResets
PROPERTY WindBounded
"""
WF_VERDICT_INVS = {"WellFormedState", "WellFormedInit"}


# =============================================================================================
# case generation
# =============================================================================================
def rand_layout(rng, w, h, alphabet, weights, must):
    while True:
        rows = ["".join(rng.choices(alphabet, weights)[0] for _ in range(w)) for _ in range(h)]
        if all(any(m in r for r in rows) for m in must):
            return rows


def cut_layout(rng, w, h, goal, start, fill, fillw):
    """A layout whose goal tiles separate the grid in two (full column or full row of goals)."""
    rows = [[rng.choices(fill, fillw)[0] for _ in range(w)] for _ in range(h)]
    if w >= 3 and (h < 3 or rng.random() < 0.6):
        c = rng.randrange(1, w - 1)
        for r in rows:
            r[c] = goal
        rows[rng.randrange(h)][rng.randrange(0, c)] = start
    elif h >= 3:
        c = rng.randrange(1, h - 1)
        rows[c] = [goal] * w
        rows[rng.randrange(c + 1, h)][rng.randrange(w)] = start
    else:
        rows[0][0] = start
        rows[-1][-1] = goal
    return ["".join(r) for r in rows]


SIZES = [(w, h) for w in range(1, 6) for h in range(1, 5)]
SP_MENU = [(0, 1), (1, 2), (4, 5), (1, 1), (1, 4)]
# probabilities that are neither multiples of 0.01 nor simple dyadics (a rounding / formatting shortcut in the
# code under test must show up as a normalisation or success-probability failure)
ODD_P = [(1, 3), (171, 200), (999, 1000), (1, 128), (2, 7)]
# probabilities a float "is close" test would confuse with 1 (np.isclose: rtol 1e-5, atol 1e-8) or with 0
NEAR_ONE = [(99999, 100000), (999999, 1000000)]
NEAR_ZERO = [(1, 100000)]
ODD_GAMMA = [(1, 3), (97, 100), (123, 1000), (777, 1000)]


def gw_default_opts():
    return dict(walls=["#"], absf=["g"], initf=["s"], fr=[["g", 0], ["x", -5]], SC=-1, GN=1, GD=1)


def gw_cases(rng, tier):
    cases = []

    def add(rows, sp, tag, **kw):
        o = gw_default_opts()
        o.update(kw)
        rep = dict(tiles=rng.choice(["list", "tuple", "str", "str_nl"]),
                   fr=rng.choice(["dict", "pairs"]), opts=rng.choice(["explicit", "default"]),
                   sp=rng.choice(["float", "float", "int"]))
        cases.append(dict(dom="GridWorld", rows=list(rows), SPN=sp[0], SPD=sp[1], tag=tag, rep=rep, **o))

    # exhaustive small layouts (every layout with a start cell); the success probability rotates in the
    # quick tier and is the full menu in the thorough tier
    small = [(1, 1), (2, 1), (1, 2), (3, 1), (1, 3), (2, 2)]
    if tier == "thorough":
        small += [(4, 1), (1, 4)]
    k = 0
    for (w, h) in small:
        for tiles in itertools.product(".#gsx", repeat=w * h):
            if "s" not in tiles:
                continue
            rows = ["".join(tiles[r * w:(r + 1) * w]) for r in range(h)]
            sps = (SP_MENU[:4] if (tier == "thorough" and w * h <= 4) else [SP_MENU[k % 4]]) + [(ODD_P + NEAR_ONE)[k % (len(ODD_P) + len(NEAR_ONE))]]
            k += 1
            for sp in sps:
                add(rows, sp, f"exhaustive-{w}x{h}")
    if tier == "thorough":      # a sample of the 3x2 / 2x3 families (TLC's mc run covers them completely)
        for (w, h) in [(3, 2), (2, 3)]:
            for _ in range(3000):
                tiles = [rng.choice(".#gsx") for _ in range(w * h)]
                tiles[rng.randrange(w * h)] = "s"
                add(["".join(tiles[r * w:(r + 1) * w]) for r in range(h)], rng.choice(SP_MENU[:4] + ODD_P + NEAR_ONE), f"sample-{w}x{h}")
    # random bigger layouts with every option varied
    n = 420 if tier == "quick" else 6000
    for i in range(n):
        w, h = rng.choice(SIZES[2:])
        style = i % 7
        kw = {}
        alpha, wts = ".#gsx", [5, 2, 1, 1, 1]
        if style == 6:      # absorbing initial states: goal tiles are start tiles too
            kw = dict(initf=["s", "g"])
        if style == 1:      # other feature names, two wall / absorbing / start symbols, a rewarded goal
            alpha, wts = ".#wgGsax", [6, 1, 1, 1, 1, 1, 1, 1]
            kw = dict(walls=["#", "w"], absf=["g", "G"], initf=["s", "a"], fr=[["g", 10], ["G", -3], ["x", -2], ["a", -1]])
        elif style == 2:    # hazards absorb, goal pays
            kw = dict(absf=["g", "x"], fr=[["g", 5], ["x", -20]])
        elif style == 3:    # discounted, rewards of either sign, free moves
            kw = dict(SC=rng.choice([0, -1, 1, -3]), fr=[["g", 7], ["x", rng.choice([-4, 3])]])
            kw["GN"], kw["GD"] = rng.choice([(1, 2), (19, 20), (99, 100)] + ODD_GAMMA)
        elif style == 4:    # no feature rewards at all (the default of the class)
            kw = dict(fr=[], SC=rng.choice([-1, -2]))
        elif style == 5:    # goals cutting the grid
            rows = cut_layout(rng, max(w, 3), h, "g", "s", ".#x", [6, 2, 1])
            add(rows, rng.choice(SP_MENU + ODD_P + NEAR_ONE), "cut", **kw)
            continue
        must = [kw.get("initf", ["s"])[0]] if rng.random() < 0.5 else []
        rows = rand_layout(rng, w, h, alpha, wts, must)
        if not any(ch in kw.get("initf", ["s"]) for r in rows for ch in r):
            rows[0] = kw.get("initf", ["s"])[-1] + rows[0][1:]
        add(rows, rng.choice(SP_MENU + ODD_P + NEAR_ONE), "random", **kw)
    return cases


def windy_case(rng, rows, tag, **kw):
    c = dict(dom="WindyGridWorld", rows=list(rows), start=["@"], goal=["$"], wall=["#"], fr=[["x", -5]], SC=-1, BC=-1,
             WN=1, WD=2, GN=99, GD=100, tag=tag,
             rep=dict(grid=rng.choice(["plain", "indented"]), fr="dict", opts=rng.choice(["explicit", "default"])))
    c.update(kw)
    return c


def dom_cases(rng, tier):
    cases = []
    # --- Tiger / LoadUnload / CliffWalking: every parameter value of the menus
    for (cn, cd) in [(0, 1), (3, 20), (1, 2), (17, 20), (1, 1), (1, 4), (19, 20)] + ODD_P + NEAR_ONE + NEAR_ZERO:
        for (gn, gd) in [(19, 20), (1, 2), (1, 1), ODD_GAMMA[(cn + cd) % len(ODD_GAMMA)]]:
            cases.append(dict(dom="Tiger", CN=cn, CD=cd, GN=gn, GD=gd, tag="menu", rep=dict(co=rng.choice(["float", "int"]))))
    for n in range(1, 9):
        for (gn, gd) in [(99, 100), (1, 2), ODD_GAMMA[n % len(ODD_GAMMA)]] + ([(1, 1)] if n % 2 else []):
            cases.append(dict(dom="LoadUnload", n=n, GN=gn, GD=gd, tag="menu", rep=dict(opts=rng.choice(["explicit", "default"]))))
    cases.append(dict(dom="CliffWalking", tag="fixed", rep={}, GN=1, GD=1, W=12, H=4,
                      rows=["............", "............", "............", "sxxxxxxxxxxg"]))
    # --- WindyGridWorld
    wp_menu = [(0, 1), (1, 4), (1, 2), (3, 4), (1, 1), (1, 5)] + ODD_P + NEAR_ONE + NEAR_ZERO
    cases.append(windy_case(rng, ["@..$"], "default-feature-rewards", fr=None, rep=dict(grid="plain", fr="default", opts="default")))
    cases.append(windy_case(rng, ["@>.", "..$"], "default-feature-rewards", fr=None, rep=dict(grid="plain", fr="default", opts="explicit")))
    n = 264 if tier == "quick" else 4000
    for i in range(n):
        w, h = rng.choice(SIZES[1:])
        style = i % 6
        kw = dict(WN=0, WD=1)
        kw["WN"], kw["WD"] = rng.choice(wp_menu)
        if style == 5:      # absorbing initial states: goal tiles are start tiles too
            kw.update(start=["@", "$"])
        if style == 0:      # odd discount rates; every other one built with the default feature_rewards (None)
            kw["GN"], kw["GD"] = rng.choice(ODD_GAMMA)
            if (i // 6) % 2 == 0:
                kw.update(fr=None, rep=dict(grid=rng.choice(["plain", "indented"]), fr="default", opts=rng.choice(["explicit", "default"])))
        if style == 1:
            kw.update(GN=1, GD=1, SC=rng.choice([-1, -2]), BC=rng.choice([0, -1, -3]), fr=[["x", -50], ["$", 0]])
        elif style == 2:
            kw.update(GN=1, GD=2, SC=rng.choice([0, -1, 1]), BC=rng.choice([0, -1, 2]), fr=[["x", 4], ["$", 50], ["^", -1]])
        elif style == 3:
            kw.update(start=["@", "s"], goal=["$", "G"], wall=["#", "W"], fr=[["G", 3], ["s", -1]])
        if style == 4:
            rows = cut_layout(rng, max(w, 3), h, "$", "@", ".#x^v<>", [6, 1, 1, 1, 1, 1, 1])
            cases.append(windy_case(rng, rows, "cut", **kw))
            continue
        alpha = ".#@$^v<>x" + ("sGW" if style == 3 else "")
        wts = [6, 2, 1, 1, 1, 1, 1, 1, 1] + ([1, 1, 1] if style == 3 else [])
        rows = rand_layout(rng, w, h, alpha, wts, ["@"])
        cases.append(windy_case(rng, rows, "random", **kw))
    # --- HeavenOrHell
    co_menu = [(0, 1), (1, 2), (19, 20), (1, 1), (3, 4)] + ODD_P + NEAR_ONE + NEAR_ZERO
    cases.append(dict(dom="HeavenOrHell", rows=None, CN=19, CD=20, SC=-1, HR=50, LR=-50, GN=19, GD=20, tag="default-grid",
                      rep=dict(opts="default")))
    n = 132 if tier == "quick" else 2000
    for i in range(n):
        w, h = rng.choice(SIZES[1:])
        cn, cd = rng.choice(co_menu)
        gn, gd = rng.choice([(19, 20), (1, 2), (1, 1)] + ODD_GAMMA[:2])
        if gn == gd:
            sc, hr, lr = rng.choice([-1, -2]), 0, -50
        else:
            sc, hr, lr = rng.choice([-1, 0, 1]), rng.choice([50, 10, 0]), rng.choice([-50, -10, 5])
        if i % 4 == 3:
            rows = cut_layout(rng, max(w, 3), h, rng.choice("gh"), "s", ".#c" + "hg", [6, 2, 2, 1, 1])
            tag = "cut"
        else:
            rows = rand_layout(rng, w, h, ".#shgc", [6, 2, 1, 1, 1, 2], ["s"])
            tag = "random"
        cases.append(dict(dom="HeavenOrHell", rows=rows, CN=cn, CD=cd, SC=sc, HR=hr, LR=lr, GN=gn, GD=gd, tag=tag,
                          rep=dict(opts="explicit", grid=rng.choice(["plain", "indented"]), disc=rng.choice(["default", "explicit"]))))
    return cases


# =============================================================================================
# building the real objects
# =============================================================================================
DEFAULT_DISCOUNT = {"GridWorld": (1, 1), "WindyGridWorld": (99, 100), "LoadUnload": (99, 100), "HeavenOrHell": (19, 20),
                    "CliffWalking": (1, 1)}


def uses_default_discount(case):
    """True when build() leaves discount_rate to the constructor default (the configured rate IS that default)."""
    dom, rep_ = case["dom"], case.get("rep", {})
    if dom == "CliffWalking":
        return True
    if DEFAULT_DISCOUNT.get(dom) != (case["GN"], case["GD"]):
        return False
    if dom == "LoadUnload":
        return rep_.get("opts") == "default" and case["n"] == 8
    if dom == "HeavenOrHell":
        return case["rows"] is None or rep_.get("disc") == "default"
    return rep_.get("opts") == "default"


def gamma_shape(case):
    return ("gamma=1" if case["GN"] == case["GD"] else "gamma<1") + (":constructor-default" if uses_default_discount(case) else ":explicit")


def build(case):
    dom = case["dom"]
    rep = case.get("rep", {})
    gamma = case["GN"] / case["GD"]
    if dom == "GridWorld":
        from msdm.domains.gridworld.mdp import GridWorld
        rows = case["rows"]
        tiles = {"list": list(rows), "tuple": tuple(rows), "str": "\n".join(rows), "str_nl": "\n" + "\n".join(rows) + "\n"}[rep.get("tiles", "list")]
        dflt = gw_default_opts()
        kw = {}
        is_default_opts = all(case[k] == dflt[k] for k in ("walls", "absf", "initf"))
        if not (rep.get("opts") == "default" and is_default_opts):
            kw.update(absorbing_features=tuple(case["absf"]), wall_features=tuple(case["walls"]), initial_features=tuple(case["initf"]))
        fr = case["fr"]
        if fr:
            kw["feature_rewards"] = {f: r for f, r in fr} if rep.get("fr") != "pairs" else [(f, r) for f, r in fr]
        elif rep.get("fr") == "pairs":
            kw["feature_rewards"] = []
        sp = case["SPN"] / case["SPD"]
        if rep.get("sp") == "int" and case["SPN"] in (0, case["SPD"]):
            sp = case["SPN"] // case["SPD"]
        if not (rep.get("opts") == "default" and case["SC"] == -1):
            kw["step_cost"] = case["SC"]
        if not (rep.get("opts") == "default" and sp == 1):
            kw["success_prob"] = sp
        if not uses_default_discount(case):
            kw["discount_rate"] = gamma
        return GridWorld(tiles, **kw)
    if dom == "WindyGridWorld":
        from msdm.domains.gridmdp.windygridworld import WindyGridWorld
        rows = case["rows"]
        grid = "\n".join(rows) if rep.get("grid") != "indented" else "\n" + "\n".join("        " + r + "  " for r in rows) + "\n    "
        kw = dict(wind_probability=case["WN"] / case["WD"])
        if not uses_default_discount(case):
            kw["discount_rate"] = gamma
        if case["fr"] is not None:
            kw["feature_rewards"] = {f: r for f, r in case["fr"]}
        if not (rep.get("opts") == "default" and case["SC"] == -1 and case["BC"] == -1):
            kw.update(step_cost=case["SC"], wall_bump_cost=case["BC"])
        if not (rep.get("opts") == "default" and case["start"] == ["@"] and case["goal"] == ["$"] and case["wall"] == ["#"]):
            kw.update(start_features="".join(case["start"]), goal_features="".join(case["goal"]), wall_features="".join(case["wall"]))
        return WindyGridWorld(grid, **kw)
    if dom == "CliffWalking":
        from msdm.domains.cliffwalking import CliffWalking
        return CliffWalking()
    if dom == "Tiger":
        from msdm.domains.tiger import Tiger
        co = case["CN"] / case["CD"]
        if rep.get("co") == "int" and case["CN"] in (0, case["CD"]):
            co = case["CN"] // case["CD"]
        return Tiger(coherence=co, discount_rate=gamma)
    if dom == "LoadUnload":
        from msdm.domains.loadunload import LoadUnload
        if rep.get("opts") == "default" and case["n"] == 8 and (case["GN"], case["GD"]) == (99, 100):
            return LoadUnload()
        return LoadUnload(nstates=case["n"], discount_rate=gamma)
    if dom == "HeavenOrHell":
        from msdm.domains.heavenorhell import HeavenOrHell
        if case["rows"] is None:
            return HeavenOrHell()
        rows = case["rows"]
        grid = "\n".join(rows) if rep.get("grid") != "indented" else "\n" + "\n".join("            " + r for r in rows) + "\n            "
        kw = {} if uses_default_discount(case) else dict(discount_rate=gamma)
        return HeavenOrHell(coherence=case["CN"] / case["CD"], step_cost=case["SC"],
                            heaven_reward=case["HR"], hell_reward=case["LR"], grid=grid, **kw)
    raise ValueError(dom)


def lab(x):
    """Project a state / action / observation label of msdm to a json-able hashable key."""
    if isinstance(x, bool):
        return int(x)
    if isinstance(x, (int, str)):
        return x
    if isinstance(x, float):
        return x
    if hasattr(x, "keys"):
        if set(x.keys()) == {"x", "y"}:
            return (x["x"], x["y"])
        if set(x.keys()) == {"dx", "dy"}:
            return (x["dx"], x["dy"])
        return tuple(sorted((str(k), lab(v)) for k, v in x.items()))
    if isinstance(x, tuple):
        return tuple(lab(v) for v in x)
    return repr(x)


def site_of(exc):
    """Name of the innermost msdm function on the traceback (call site of the failure)."""
    name = "?"
    for fr in traceback.extract_tb(exc.__traceback__):
        if "/msdm/" in fr.filename:
            name = fr.name
    return name


def err(stage, exc):
    return {"stage": stage, "site": site_of(exc), "exc": type(exc).__name__, "msg": str(exc)[:200]}


def num(x):
    try:
        v = float(x)
    except Exception:      # noqa: BLE001
        return None
    return v


def observe(case, mutate=None):
    """Run the real code on one case and dump everything the check looks at (plain python data)."""
    import numpy as np
    with warnings.catch_warnings():
        warnings.simplefilter("ignore")
        return _observe(case, mutate, np)


def alias_probe(case, pomdp):
    """A caller edits, in place, the container a query returned (clears it), asks again, and puts the content
    back.  Returns {method: 1 if the model's second answer changed}.  Immutable results are left alone."""
    out = {}
    try:
        obj = build(case)
        s0 = next(s for s, p in obj.initial_state_dist().items() if p > 0)
        a0 = list(obj.actions(s0))[0]
        calls = {"actions": lambda: obj.actions(s0), "initial_state_dist": obj.initial_state_dist,
                 "next_state_dist": lambda: obj.next_state_dist(s0, a0)}
        if pomdp:
            calls["observation_dist"] = lambda: obj.observation_dist(a0, s0)
        for name, call in calls.items():
            x = call()
            if isinstance(x, list):
                saved = list(x)
                x.clear()
                try:
                    again = list(call())
                finally:
                    x[:] = saved
                out[name] = 0 if again == saved else 1
            elif isinstance(x, dict):
                saved = dict(x)
                try:
                    x.clear()
                except TypeError:
                    continue            # immutable distribution
                try:
                    again = dict(call())
                finally:
                    x.update(saved)
                out[name] = 0 if again == saved else 1
    except Exception:                   # noqa: BLE001 - failures of the interface are reported by the main dump
        pass
    return out


def vcopy(x):
    """An equal but not identical copy of a state / action / observation label (labels are values)."""
    try:
        from frozendict import frozendict
        if isinstance(x, frozendict):
            return frozendict({k: v for k, v in x.items()})
    except ImportError:
        pass
    if isinstance(x, tuple) and hasattr(x, "_fields"):
        return type(x)(*tuple(x))
    return x


def build_decoy(dom):
    """Another model of the same class, bigger and free of walls, built and queried while the model under
    test is in use: instances must not share state."""
    c = {"GridWorld": dict(dom=dom, rows=["s....", ".....", ".....", "....."], SPN=1, SPD=2, rep=dict(opts="explicit"), **gw_default_opts()),
         "WindyGridWorld": dict(dom=dom, rows=["@....", ".....", ".....", "....."], start=["@"], goal=["$"], wall=["#"], fr=[], SC=-2, BC=-2,
                                WN=1, WD=2, GN=1, GD=2, rep=dict(opts="explicit")),
         "HeavenOrHell": dict(dom=dom, rows=["s....", ".....", ".....", "....."], CN=1, CD=2, SC=-2, HR=1, LR=-1, GN=1, GD=2, rep=dict(opts="explicit")),
         "Tiger": dict(dom=dom, CN=1, CD=2, GN=1, GD=2, rep={}),
         "LoadUnload": dict(dom=dom, n=9, GN=1, GD=2, rep={}),
         "CliffWalking": dict(dom=dom, GN=1, GD=1, rep={})}[dom]
    decoy = build(c)
    len(decoy.state_list)
    return decoy


def _observe(case, mutate, np):
    dom = case["dom"]
    d = {"dom": dom, "error": None, "calls": 0}
    try:
        obj = build(case)
        if mutate is not None:
            mutate(obj)
    except Exception as e:                      # noqa: BLE001
        d["error"] = err("construct", e)
        return d
    pomdp = dom in ("Tiger", "LoadUnload", "HeavenOrHell")
    try:
        sl = list(obj.state_list)
    except Exception as e:                      # noqa: BLE001
        d["error"] = err("state_list", e)
        return d
    try:
        al = list(obj.action_list)
    except Exception as e:                      # noqa: BLE001
        d["error"] = err("action_list", e)
        return d
    try:
        decoy = build_decoy(dom)        # noqa: F841 - kept alive until the end of the dump
    except Exception as e:              # noqa: BLE001
        d["error"] = err("construct", e)
        return d
    idx = {s: i for i, s in enumerate(sl)}
    aidx = {a: i for i, a in enumerate(al)}
    d["discount"] = num(getattr(obj, "discount_rate", None))
    d["states"] = [lab(s) for s in sl]
    d["actions"] = [lab(a) for a in al]
    d["abs"], d["acts"], d["rows"] = [], [], []
    try:
        for s in sl:
            s = vcopy(s)
            stage = "is_absorbing"
            d["abs"].append(1 if obj.is_absorbing(s) else 0)
            stage = "actions"
            acts = list(obj.actions(s))
            d["acts"].append([(aidx.get(a, -1), lab(a)) for a in acts])
            rows = []
            for a in acts:
                a = vcopy(a)
                stage = "next_state_dist"
                dist = obj.next_state_dist(s, a)
                d["calls"] += 1
                ent = []
                for ns, p in dist.items():
                    r = None
                    if p > 0:
                        stage = "reward"
                        r = num(obj.reward(s, a, vcopy(ns)))
                        stage = "next_state_dist"
                    ent.append((idx.get(ns, -1), lab(ns), num(p), r))
                rows.append(ent)
            d["rows"].append(rows)
        stage = "initial_state_dist"
        d["init"] = [(idx.get(s, -1), lab(s), num(p)) for s, p in obj.initial_state_dist().items()]
        d["obs"] = None
        if pomdp:
            stage = "observation_list"
            ol = list(obj.observation_list)
            oidx = {o: i for i, o in enumerate(ol)}
            d["olist"] = [lab(o) for o in ol]
            stage = "observation_dist"
            d["obs"] = [[[(oidx.get(o, -1), lab(o), num(p)) for o, p in obj.observation_dist(vcopy(a), vcopy(ns)).items()] for ns in sl] for a in al]
    except Exception as e:                      # noqa: BLE001
        d["error"] = err(stage, e)
        return d
    # --- ownership of returned containers (on a second object; every edit is undone before moving on)
    d["alias"] = alias_probe(case, pomdp)
    # --- the tabular arrays
    d["arrays"] = {}
    names = ["transition_matrix", "reward_matrix", "action_matrix", "initial_state_vec", "absorbing_state_vec",
             "state_action_reward_matrix"] + (["observation_matrix"] if pomdp else [])
    for name in names:
        try:
            arr = np.asarray(getattr(obj, name))
            d["arrays"][name] = arr
        except Exception as e:                  # noqa: BLE001
            d["arrays"][name] = err(name, e)
    # --- planning
    d["vi"] = None
    if not any(isinstance(v, dict) for v in d["arrays"].values()):
        try:
            from msdm.algorithms import ValueIteration
            valued = dom == "GridWorld" and case["GN"] == case["GD"]
            res = ValueIteration(max_residual=1e-10 if valued else VI_EPS, max_iterations=VI_CAP).plan_on(obj)
            d["vi"] = {"V": [num(res.state_value[s]) for s in sl], "initial_value": num(res.initial_value),
                       "iterations": int(res.iterations)}
            pol = res.policy
            for s in sl[:3]:
                pd = pol.action_dist(s)
                tot = sum(p for _, p in pd.items())
                if not abs(tot - 1) < 1e-9:
                    d["vi"]["policy_unnormalised"] = [lab(s), tot]
        except Exception as e:                  # noqa: BLE001
            d["vi"] = err("plan_on", e)
    return d


# =============================================================================================
# batch records for TLC
# =============================================================================================
def gw_record(case):
    return dict(iid=0, W=len(case["rows"][0]), H=len(case["rows"]), rows=[list(r) for r in case["rows"]],
                walls=case["walls"], absf=case["absf"], initf=case["initf"], fr=case["fr"], SC=case["SC"],
                SPN=case["SPN"], SPD=case["SPD"], GN=case["GN"], GD=case["GD"])


DOMKEY = {"Tiger": "tiger", "LoadUnload": "loadunload", "CliffWalking": "cliff", "WindyGridWorld": "windy", "HeavenOrHell": "hoh"}
HOH_DEFAULT = ["h.g", "#.#", "#sc"]


def dom_record(case):
    dom = case["dom"]
    r = {"iid": 0, "dom": DOMKEY[dom]}
    if dom == "Tiger":
        r.update(CN=case["CN"], CD=case["CD"])
    elif dom == "LoadUnload":
        r.update(n=case["n"])
    else:
        rows = case["rows"] if case["rows"] is not None else HOH_DEFAULT
        r.update(W=len(rows[0]), H=len(rows), rows=[list(x) for x in rows])
        if dom == "WindyGridWorld":
            r.update(start=case["start"], goal=case["goal"], wall=case["wall"], fr=case["fr"] or [], SC=case["SC"], BC=case["BC"],
                     WN=case["WN"], WD=case["WD"])
        elif dom == "HeavenOrHell":
            r.update(CN=case["CN"], CD=case["CD"], SC=case["SC"], HR=case["HR"], LR=case["LR"])
    return r


def q(p):
    if p is None or not math.isfinite(p) or abs(p) > 10:
        return -1
    return int(round(p * SCALE))


def wf_record(case, d):
    """Extracted transition system of a dump (see the header of C20_WellFormed.tla)."""
    n = len(d["states"])
    rec = {"N": n, "SC": SCALE, "tag": case["dom"], "all": 1 if case["dom"] == "GridWorld" else 0, "abs": d["abs"],
           "T": [], "RF": [], "NO": 0, "O": []}
    for s in range(n):
        rec["T"].append([[[t + 1, q(p)] for (t, _, p, _) in row] for row in d["rows"][s]])
        rec["RF"].append([[1 if (p is None or not p > 0 or (r is not None and math.isfinite(r))) else 0 for (_, _, p, r) in row]
                          for row in d["rows"][s]])
    rec["I"] = [[t + 1, q(p)] for (t, _, p) in d["init"]]
    g = d.get("discount")
    rec.update(GN=case["GN"], GD=case["GD"], DS=DSCALE,
               DQ=int(round(g * DSCALE)) if g is not None and math.isfinite(g) and abs(g) <= 2 else -1)
    if d["obs"] is not None:
        rec["NO"] = max(1, len(d["olist"]))
        rec["O"] = [[[[o + 1, q(p)] for (o, _, p) in ent] for ent in per_a] for per_a in d["obs"]]
    return rec


# =============================================================================================
# independent python oracles (cross-checks of the TLA+ text; disagreement = machinery failure)
# =============================================================================================
def gw_pyoracle(case):
    rows = case["rows"]
    H, W = len(rows), len(rows[0])
    feat = {}
    for ri, row in enumerate(rows):
        for x, ch in enumerate(row):
            feat[(x, H - 1 - ri)] = "" if ch == "." else ch
    fr = dict((f, r) for f, r in case["fr"])
    sp = F(case["SPN"], case["SPD"])
    cells = sorted(feat)
    states = [T] + cells
    wall = {c for c in cells if feat[c] in case["walls"]}
    absc = {c for c in cells if feat[c] in case["absf"]}

    def crew(c):
        return case["SC"] + fr.get(feat[c], 0)
    table = {}
    for s in states:
        for a in GW_ACTS:
            if s == T or s in absc:
                out = {T: (F(1), 0)}
            else:
                t = (s[0] + a[0], s[1] + a[1])
                if a == (0, 0) or t not in feat or t in wall:
                    out = {s: (F(1), crew(s))}
                else:
                    out = {t: (sp, crew(t)), s: (1 - sp, crew(s))}
                    out = {k: v for k, v in out.items() if v[0] > 0}
            table[(s, a)] = out
    valued = case["GN"] == case["GD"] and sp > 0 and all(c in absc or crew(c) < 0 for c in cells)
    V = None
    if valued:
        V = {c: (F(0) if c in absc else None) for c in cells}
        for _ in range(len(cells) + 2):
            V2 = dict(V)
            for c in cells:
                if c in absc:
                    continue
                best = None
                for a in GW_ACTS:
                    t = (c[0] + a[0], c[1] + a[1])
                    if a == (0, 0) or t not in feat or t in wall or V[t] is None:
                        continue
                    v = crew(t) + V[t] + (1 - sp) / sp * crew(c)
                    best = v if best is None or v > best else best
                V2[c] = best
            if V2 == V:
                break
            V = V2
    return states, table, V, sorted(c for c in cells if feat[c] in case["initf"])


def gw_crosscheck(case, table):
    states, tab, V, init = gw_pyoracle(case)
    if [tuple(s) for s in table["states"]] != states:
        raise TLCFailure(f"C20_GridWorld oracle and python oracle disagree on the state list of {case['rows']}")
    for k, s in enumerate(states):
        for j, a in enumerate(GW_ACTS):
            exp = {states[t - 1]: (F(n, case["SPD"]), r) for (t, n, r) in table["rows"][k][j] if n > 0}
            if exp != tab[(s, a)]:
                raise TLCFailure(f"C20_GridWorld oracle and python oracle disagree on {case['rows']} state {s} action {a}: {exp} vs {tab[(s, a)]}")
    if [states[i - 1] for i in table["init"]] != init:
        raise TLCFailure(f"C20_GridWorld oracle and python oracle disagree on the start cells of {case['rows']}")
    if (V is not None) != (table["valued"] == 1):
        raise TLCFailure(f"C20_GridWorld oracle and python oracle disagree on Valued for {case['rows']}")
    if V is not None:
        for k, s in enumerate(states[1:], start=1):
            u = table["u"][k]
            tv = None if u == NOVAL else F(u, case["SPN"])
            if tv != V[s]:
                raise TLCFailure(f"C20_GridWorld value oracle disagrees with python on {case['rows']} cell {s}: {tv} vs {V[s]}")


def wf_pyjudge(rec):
    """Independent evaluation of the clauses of C20_WellFormed on one extracted system."""
    bad = {}
    n = rec["N"]

    def row_ok(row):
        return all(e[1] >= 0 for e in row) and abs(sum(e[1] for e in row) - rec["SC"]) <= len(row)
    for s in range(1, n + 1):
        cl = set()
        T_ = rec["T"][s - 1]
        if not T_:
            cl.add("no-action")
        if any(not row_ok(row) for row in T_):
            cl.add("transition-not-normalised")
        if not rec["abs"][s - 1]:
            if any(e[1] > 0 and rec["RF"][s - 1][j][k] == 0 for j, row in enumerate(T_) for k, e in enumerate(row)):
                cl.add("reward-not-finite")
        if rec["NO"] > 0:
            if any(not row_ok(per_a[s - 1]) for per_a in rec["O"]):
                cl.add("observation-not-normalised")
            if any(e[1] > 0 and e[0] == 0 for per_a in rec["O"] for e in per_a[s - 1]):
                cl.add("observation-outside-observation-list")
        if cl:
            bad[s] = cl
    outside = any(e[1] > 0 and e[0] == 0 for s in range(n) if not rec["abs"][s] for row in rec["T"][s] for e in row)
    return bad, outside


# =============================================================================================
# judging
# =============================================================================================
class Findings:
    """Verdicts of one case (kept as data so that selftests can inspect them)."""

    def __init__(self):
        self.violations = []     # (signature, what, extra)
        self.drifts = []         # (step, detail)
        self.counts = {}

    def count(self, key, n=1):
        self.counts[key] = self.counts.get(key, 0) + n

    def violation(self, sig, what, extra=None):
        self.violations.append((sig, what, extra))

    def drift(self, step, detail):
        self.drifts.append((step, detail))


def corner(case):
    dom = case["dom"]
    if dom == "GridWorld":
        n, dd = case["SPN"], case["SPD"]
    elif dom == "WindyGridWorld":
        n, dd = case["WN"], case["WD"]
    elif dom in ("Tiger", "HeavenOrHell"):
        n, dd = case["CN"], case["CD"]
    elif dom == "LoadUnload":
        return f"nstates={'1' if case['n'] == 1 else 'n'}"
    else:
        return "fixed"
    return "p=0" if n == 0 else "p=1" if n == dd else "0<p<1"


def close(x, exact, rel=TOL):
    return x is not None and math.isfinite(x) and abs(x - float(exact)) <= rel * max(1.0, abs(float(exact)))


def judge_gridworld(case, table, d, f):
    """Second sentence of the statement: compare the real GridWorld with the table TLC printed."""
    if d["error"] is not None:
        return False     # reported by judge_common
    exp_states = [tuple(s) for s in table["states"]]
    eset = set(exp_states)
    real_index = {s: i for i, s in enumerate(d["states"])}
    walls = set(table["walls"])
    absc = set(table["abscells"])
    ok = True
    missing = [s for s in exp_states if s not in real_index]
    extra = [s for s in d["states"] if s not in eset]
    if missing or extra:
        f.drift("GridWorld.state_list", {"missing": missing[:4], "extra": [str(x) for x in extra[:4]]})
        ok = False
    W, H = len(case["rows"][0]), len(case["rows"])

    def kind(c):
        if not (0 <= c[0] < W and 0 <= c[1] < H):
            return "offgrid"
        i = exp_states.index(c) + 1
        return "wall" if i in walls else "absorbing" if i in absc else "free"
    for k, s in enumerate(exp_states):
        if s not in real_index:
            continue
        si = real_index[s]
        src_wall = (k + 1) in walls
        src_abs = s == T or (k + 1) in absc
        offered = {a: j for j, (_, a) in enumerate(d["acts"][si])}
        for j, a in enumerate(GW_ACTS):
            if a not in offered:
                if offered:
                    f.drift("GridWorld.actions", {"state": s, "missing": a})
                ok = False
                continue
            ent = d["rows"][si][offered[a]]
            f.count("gridworld_state_action_pairs_compared")
            real = {}
            rrew = {}
            for (_, t, p, r) in ent:
                real[t] = real.get(t, 0.0) + (p if p is not None else float("nan"))
                if p is not None and p > TOL:
                    rrew[t] = r
            exp = {exp_states[t - 1]: (F(n, case["SPD"]), r) for (t, n, r) in table["rows"][k][j]}
            tgt = (s[0] + a[0], s[1] + a[1]) if s != T else T
            shape = "target-" + ("noop" if a == (0, 0) else kind(tgt)) if s != T else "terminal"
            structural = False

            def viol(site, clause, what):
                nonlocal ok
                ok = False
                f.violation(f"C20:GridWorld.{site}:{clause}:{shape}",
                            f"layout {case['rows']} sp={case['SPN']}/{case['SPD']} state {s} action {a}: {what}",
                            {"state": s, "action": a, "real": {str(t): p for t, p in real.items()}})
            for t, p in real.items():
                if not (p > TOL) or t not in eset:
                    continue         # outside the list: decided by C20_WellFormed
                if src_abs:
                    if t != T:
                        structural = True
                        viol("next_state_dist", "absorbing-cell-must-go-to-terminal", f"reaches {t} with probability {p}")
                elif t == T:
                    structural = True
                    viol("next_state_dist", "terminal-entered-from-non-absorbing-cell", f"reaches the terminal state with probability {p}")
                elif t != s:
                    if t != tgt or abs(t[0] - s[0]) + abs(t[1] - s[1]) != 1:
                        structural = True
                        viol("next_state_dist", "moves-other-than-commanded", f"reaches {t} with probability {p}")
                    elif kind(t) == "wall":
                        structural = True
                        viol("next_state_dist", "enters-wall", f"enters the wall {t} with probability {p}")
            if not structural:
                for t in set(real) | set(exp):
                    if t not in eset:
                        continue
                    pe = exp.get(t, (F(0), 0))[0]
                    pr = real.get(t, 0.0)
                    if not close(pr, pe):
                        if src_abs:
                            viol("next_state_dist", "absorbing-cell-must-go-to-terminal", f"P({t}) = {pr}, must be {pe}")
                        elif src_wall:
                            ok = False
                            f.drift("GridWorld.next_state_dist(from inside a wall)", {"state": s, "action": a, "t": t, "real": pr, "spec": str(pe)})
                        else:
                            viol("next_state_dist", "success-probability", f"P({t}) = {pr}, must be {pe}")
                        break
            for t, r in rrew.items():
                if t not in exp:
                    continue
                re_ = exp[t][1]
                if not close(r, re_):
                    if s == T or t == T:
                        viol("reward", "terminal-reward-not-zero", f"reward {r} on the step to {t}")
                    elif src_wall:
                        ok = False
                        f.drift("GridWorld.reward(from inside a wall)", {"state": s, "action": a, "t": t, "real": r, "spec": re_})
                    else:
                        viol("reward", "not-step-cost-plus-feature-reward-of-entered-cell", f"reward {r} entering {t}, must be {re_}")
    # --- is_absorbing / initial distribution: implementation-shaped
    for s, i in real_index.items():
        if s in eset and d["abs"][i] != (1 if s == T else 0):
            f.drift("GridWorld.is_absorbing", {"state": s, "real": d["abs"][i]})
            ok = False
            break
    init_exp = {exp_states[i - 1] for i in table["init"]}
    init_real = {t: p for (_, t, p) in d["init"] if p is not None and p > TOL}
    if set(init_real) != init_exp or any(not close(p, F(1, len(init_exp))) for p in init_real.values()):
        f.drift("GridWorld.initial_state_dist", {"real": {str(k): v for k, v in init_real.items()}, "spec": sorted(init_exp)})
        ok = False
    # --- planning: exact optimal values
    vi = d.get("vi")
    if ok and table["valued"] == 1 and isinstance(vi, dict) and "V" in vi and vi["iterations"] < 19990:
        ncell = W * H
        bound = 1e-10 * ncell * case["SPD"] / case["SPN"]
        f.count("gridworld_layouts_with_exact_values_compared")
        for k, s in enumerate(exp_states):
            if k == 0 or (k + 1) in walls or table["u"][k] == NOVAL:
                continue
            v = F(table["u"][k], case["SPN"])
            got = vi["V"][real_index[s]]
            f.count("gridworld_cell_values_compared")
            if got is None or not math.isfinite(got) or abs(got - float(v)) > bound + TOL * max(1.0, abs(float(v))):
                ok = False
                f.violation(f"C20:ValueIteration.plan_on(GridWorld):values-differ-from-exact-optimum:{corner(case)}",
                            f"layout {case['rows']} sp={case['SPN']}/{case['SPD']}: V{s} = {got}, exact optimum {v}",
                            {"state": s, "got": got, "exact": str(v)})
                break
    return ok


def judge_common(case, d, wf, f):
    """First sentence of the statement on one dump: TLC's verdict records + arrays + planning.

    wf = {"summary": record | None, "bad": [records]} from C20_WellFormed (None if nothing was dumped)."""
    dom = case["dom"]
    cor = corner(case)
    ok = True
    disc_bad = False
    if d["error"] is not None:
        e = d["error"]
        f.violation(f"C20:{dom}.{e['site']}:{e['exc']}:{cor}",
                    f"{dom} {describe(case)}: {e['stage']} raised {e['exc']}: {e['msg']}", {"error": e})
        return False
    site = {"successor-outside-state-list": "next_state_dist", "no-action": "actions", "transition-not-normalised": "next_state_dist",
            "reward-not-finite": "reward", "observation-not-normalised": "observation_dist",
            "observation-outside-observation-list": "observation_dist"}
    for r in wf["bad"]:
        for cl in r["clauses"]:
            ok = False
            where = d["states"][r["s"] - 1] if r["s"] > 0 else "(outside)"
            f.violation(f"C20:{dom}.{site[cl]}:{cl}:{cor}", f"{dom} {describe(case)}: state {where}: {cl} {r.get('detail', '')}"[:400],
                        {"state": str(where), "clause": cl})
    summ = wf["summary"]
    if summ is not None:
        for cl in summ["initbad"]:
            ok = False
            f.violation(f"C20:{dom}.initial_state_dist:{cl}:{cor}", f"{dom} {describe(case)}: {cl}: {d['init']}"[:400], {"clause": cl})
        f.count("discount_rates_read_back_and_compared")
        for cl in summ["modelbad"]:
            disc_bad = True
            f.violation(f"C20:{dom}.discount_rate:{cl}:{gamma_shape(case)}",
                        f"{dom} {describe(case)}: constructed with discount rate {case['GN']}/{case['GD']} "
                        f"({'constructor default' if uses_default_discount(case) else 'passed explicitly'}), the object reports {d.get('discount')}",
                        {"clause": cl, "configured": [case["GN"], case["GD"]], "read_back": d.get("discount")})
    # --- arrays
    arrays = d["arrays"]
    for name, arr in arrays.items():
        if isinstance(arr, dict):
            ok = False
            if summ is not None and summ["ghost"]:
                shape = "absorbing-state-successor-outside-state-list"
            elif summ is not None and summ["zero"]:
                shape = "zero-probability-successor-outside-state-list"
            elif summ is not None and summ["zeroobs"]:
                shape = "zero-probability-observation-outside-observation-list"
            else:
                shape = cor
            f.violation(f"C20:{dom}.{name}:{arr['exc']}:{shape}",
                        f"{dom} {describe(case)}: building {name} raised {arr['exc']}: {arr['msg']}", {"error": arr})
            break        # the other arrays fail for the same reason
    if ok and not any(isinstance(a, dict) for a in arrays.values()):
        ok = judge_arrays(case, d, f) and ok
    # --- planning
    vi = d.get("vi")
    if isinstance(vi, dict) and "exc" in vi:
        ok = False
        f.violation(f"C20:ValueIteration.plan_on({dom}):{vi['exc']}:{cor}", f"{dom} {describe(case)}: plan_on raised {vi['exc']}: {vi['msg']}",
                    {"error": vi})
    elif isinstance(vi, dict):
        badv = [i for i, v in enumerate(vi["V"]) if v is None or not math.isfinite(v)]
        if badv or vi["initial_value"] is None or not math.isfinite(vi["initial_value"]) or "policy_unnormalised" in vi:
            ok = False
            f.violation(f"C20:ValueIteration.plan_on({dom}):result-not-finite:{cor}",
                        f"{dom} {describe(case)}: planned values not finite at states {badv[:3]} / initial value {vi['initial_value']}", {})
        elif ok and case["GN"] < case["GD"] and vi["iterations"] < VI_CAP - 10:
            ok = judge_plan_discounted(case, d, vi, f) and ok
    return ok and not disc_bad


VI_CAP = 20000
VI_EPS = 1e-5


def judge_plan_discounted(case, d, vi, f):
    """Planning clause at the CONFIGURED discount rate GN/GD (not the one read back from the object).

    ValueIteration(max_residual=eps) stops when |V - T V| <= eps and returns V, where T is the Bellman
    optimality operator of the planned model; absorbing states are worth 0.  So on the dumped functional
    interface, at the configured discount, V(s) = max_a sum_t p (r + gamma V(t)) must hold within
    eps + float noise (1e-9 relative to the magnitudes involved)."""
    dom = case["dom"]
    g = case["GN"] / case["GD"]
    V = vi["V"]
    av = d["arrays"]["absorbing_state_vec"]
    vmax = max([abs(v) for v in V] + [1.0])
    f.count("discounted_plans_checked_against_the_configured_discount")
    for s in range(len(V)):
        if av[s]:
            if abs(V[s]) > TOL:
                f.violation(f"C20:ValueIteration.plan_on({dom}):absorbing-state-not-worth-zero:{gamma_shape(case)}",
                            f"{dom} {describe(case)}: value {V[s]} at absorbing state {d['states'][s]}", {})
                return False
            continue
        best, scale = None, vmax
        for ent in d["rows"][s]:
            if any(t < 0 and p is not None and p > 0 for (t, _, p, _) in ent) or any(p is None or (p > 0 and r is None) for (_, _, p, r) in ent):
                best = None
                break
            qa = sum(p * (r + g * V[t]) for (t, _, p, r) in ent if p > 0)
            scale = max([scale] + [abs(r) for (_, _, p, r) in ent if p > 0])
            best = qa if best is None or qa > best else best
        if best is None:
            continue
        if abs(V[s] - best) > VI_EPS + TOL * scale * 4:
            f.violation(f"C20:ValueIteration.plan_on({dom}):values-not-optimal-at-the-configured-discount:{gamma_shape(case)}",
                        f"{dom} {describe(case)}: configured discount {case['GN']}/{case['GD']} (object reports {d.get('discount')}): "
                        f"V{d['states'][s]} = {V[s]} but max_a sum p (r + gamma V') = {best}",
                        {"state": str(d["states"][s]), "V": V[s], "lookahead": best})
            return False
    return True


def judge_arrays(case, d, f):
    """The arrays are the functional interface in tabular form (positive entries of listed states)."""
    dom = case["dom"]
    A = d["arrays"]
    n, k = len(d["states"]), len(d["actions"])
    tm, rm, am = A["transition_matrix"], A["reward_matrix"], A["action_matrix"]

    def bad(name, what):
        f.violation(f"C20:{dom}.{name}:differs-from-functional-interface:{corner(case)}", f"{dom} {describe(case)}: {name} {what}", {})
        return False
    if tm.shape != (n, k, n) or rm.shape != (n, k, n) or am.shape != (n, k):
        return bad("transition_matrix", f"shape {tm.shape}, expected {(n, k, n)}")
    for s in range(n):
        offered = set()
        for (ai, _), ent in zip(d["acts"][s], d["rows"][s]):
            if ai < 0:
                return bad("action_matrix", f"action of state {d['states'][s]} not in the action list")
            offered.add(ai)
            row = {}
            for (t, _, p, r) in ent:
                if t >= 0 and p is not None:
                    row[t] = row.get(t, 0.0) + p
                    if p > 0 and r is not None and math.isfinite(r) and not close(float(rm[s, ai, t]), r):
                        return bad("reward_matrix", f"[{d['states'][s]}, {d['actions'][ai]}, {d['states'][t]}] = {rm[s, ai, t]}, reward() = {r}")
            for t in range(n):
                if not abs(float(tm[s, ai, t]) - row.get(t, 0.0)) <= TOL:
                    return bad("transition_matrix", f"[{d['states'][s]}, {d['actions'][ai]}, {d['states'][t]}] = {tm[s, ai, t]}, next_state_dist = {row.get(t, 0.0)}")
        for ai in range(k):
            if (am[s, ai] != 0) != (ai in offered):
                return bad("action_matrix", f"[{d['states'][s]}, {d['actions'][ai]}] = {am[s, ai]}")
    iv = A["initial_state_vec"]
    init = {}
    for (t, _, p) in d["init"]:
        if t >= 0 and p is not None:
            init[t] = init.get(t, 0.0) + p
    if len(iv) != n or any(abs(float(iv[t]) - init.get(t, 0.0)) > TOL for t in range(n)):
        return bad("initial_state_vec", f"= {list(iv)[:6]}, initial_state_dist = {init}")
    av = A["absorbing_state_vec"]
    if any(d["abs"][s] and not av[s] for s in range(n)):
        return bad("absorbing_state_vec", "misses a state for which is_absorbing holds")
    if d["obs"] is not None:
        om = A["observation_matrix"]
        if om.shape != (k, n, len(d["olist"])):
            return bad("observation_matrix", f"shape {om.shape}")
        for ai in range(k):
            for t in range(n):
                row = {}
                for (o, _, p) in d["obs"][ai][t]:
                    if o >= 0 and p is not None:
                        row[o] = row.get(o, 0.0) + p
                for o in range(len(d["olist"])):
                    if abs(float(om[ai, t, o]) - row.get(o, 0.0)) > TOL:
                        return bad("observation_matrix", f"[{d['actions'][ai]}, {d['states'][t]}, {d['olist'][o]}] = {om[ai, t, o]}, observation_dist = {row.get(o, 0.0)}")
    return True


def judge_alias(case, fresh, d, f):
    """Ownership of returned containers vs the reference profile printed by TLC: DRIFT level.

    The statement quantifies over layouts and parameters, not over callers that edit returned objects, and
    the unchanged library itself hands out an internal list (LoadUnload.actions) - so a model that can be
    edited through a returned container is reported as drift of the reference machine, not as a violation."""
    ok = True
    for method, changed in (d.get("alias") or {}).items():
        f.count("returned_containers_edited_in_place_and_requeried")
        if changed and method in fresh:
            ok = False
            f.drift(f"{case['dom']}.{method}(returns its internal mutable object)",
                    {"case": describe(case), "effect": "after the caller cleared the returned container the model answers differently"})
    return ok


def tl(x):
    """json value printed by TLC -> hashable key (lists become tuples)."""
    if isinstance(x, list):
        return tuple(tl(v) for v in x)
    return x


def judge_domain_dynamics(case, recs, d, f):
    """Reference dynamics of the five other domains vs the real code: DRIFT level."""
    dom = case["dom"]
    if d["error"] is not None or not recs:
        return False
    ok = True
    model_states = {tl(r["s"]): r for r in recs}
    # project the real labels to the model's state tuples
    proj = {}
    for i, s_ in enumerate(d["states"]):
        key = (s_,) if dom == "Tiger" else tuple(s_[:3]) if dom == "HeavenOrHell" else s_
        proj[key] = i
    if set(proj) != set(model_states):
        f.drift(f"{dom}.state_list", {"case": describe(case), "only_model": [str(x) for x in sorted(set(model_states) - set(proj), key=str)[:4]],
                                      "only_real": [str(x) for x in sorted(set(proj) - set(model_states), key=str)[:4]]})
        ok = False

    def skey(t):
        return (t,) if dom == "Tiger" else tuple(t[:3]) if dom == "HeavenOrHell" else t

    def akey(a):
        return (a,) if dom == "Tiger" else a
    for key, r in model_states.items():
        if key not in proj:
            continue
        si = proj[key]
        if d["abs"][si] != r["abs"]:
            f.drift(f"{dom}.is_absorbing", {"case": describe(case), "state": str(key), "real": d["abs"][si]})
            ok = False
        if r["abs"]:
            continue
        den = r["den"]
        offered = {akey(a): j for j, (_, a) in enumerate(d["acts"][si])}
        if set(offered) != {tl(row["a"]) for row in r["rows"]}:
            f.drift(f"{dom}.actions", {"case": describe(case), "state": str(key), "real": [str(a) for a in offered]})
            ok = False
            continue
        for row in r["rows"]:
            f.count("other_domain_state_action_pairs_compared")
            ent = d["rows"][si][offered[tl(row["a"])]]
            real, rrew = {}, {}
            for (_, t, p, rw) in ent:
                real[skey(t)] = real.get(skey(t), 0.0) + (p or 0.0)
                if p is not None and p > TOL:
                    rrew[skey(t)] = rw
            exp = {tl(o[0]): (F(o[1], den), o[2]) for o in row["outs"]}
            for t in set(real) | set(exp):
                pe = exp.get(t, (F(0), None))[0]
                if not close(real.get(t, 0.0), pe):
                    f.drift(f"{dom}.next_state_dist", {"case": describe(case), "state": str(key), "action": str(row["a"]), "t": str(t),
                                                       "real": real.get(t, 0.0), "spec": str(pe)})
                    ok = False
                    break
                if pe > 0 and t in rrew:
                    rn, rd = exp[t][1]
                    if rd != 0 and not close(rrew[t], F(rn, rd)):
                        f.drift(f"{dom}.reward", {"case": describe(case), "state": str(key), "action": str(row["a"]), "t": str(t),
                                                  "real": rrew[t], "spec": str(F(rn, rd))})
                        ok = False
                        break
        if d["obs"] is not None:
            for ai, a in enumerate(d["actions"]):
                mrow = [o for row, o in zip(r["rows"], r["obs"]) if tl(row["a"]) == akey(a)]
                if not mrow:
                    continue
                exp = {tl(o[0]): F(o[1], den) for o in mrow[0]}
                real = {}
                for (_, o, p) in d["obs"][ai][si]:
                    real[o] = real.get(o, 0.0) + (p or 0.0)
                for o in set(real) | set(exp):
                    if not close(real.get(o, 0.0), exp.get(o, F(0))):
                        f.drift(f"{dom}.observation_dist", {"case": describe(case), "action": str(a), "next_state": str(key), "o": str(o),
                                                            "real": real.get(o, 0.0), "spec": str(exp.get(o, F(0)))})
                        ok = False
                        break
    init = recs[0]["init"]
    tot = sum(w for _, w in init)
    exp = {tl(s_): F(w, tot) for s_, w in init}
    real = {}
    for (_, t, p) in d["init"]:
        real[skey(t)] = real.get(skey(t), 0.0) + (p or 0.0)
    if any(not close(real.get(t, 0.0), exp.get(t, F(0))) for t in set(real) | set(exp)):
        f.drift(f"{dom}.initial_state_dist", {"case": describe(case), "real": {str(k_): v for k_, v in real.items()}})
        ok = False
    return ok


def describe(case):
    dom = case["dom"]
    if dom == "GridWorld":
        return f"{case['rows']} sp={case['SPN']}/{case['SPD']}"
    if dom == "WindyGridWorld":
        return f"{case['rows']} wind={case['WN']}/{case['WD']} feature_rewards={'None' if case['fr'] is None else 'given'}"
    if dom == "HeavenOrHell":
        return f"{case['rows']} coherence={case['CN']}/{case['CD']}"
    if dom == "Tiger":
        return f"coherence={case['CN']}/{case['CD']}"
    if dom == "LoadUnload":
        return f"nstates={case['n']}"
    return ""


# =============================================================================================
# orchestration
# =============================================================================================
def _observe_worker(case):
    return observe(case)


class Background:
    """A TLC run (or anything else) in a thread; .get() re-raises its failure."""

    def __init__(self, fn, *args, **kw):
        self.out = {}

        def work():
            try:
                self.out["res"] = fn(*args, **kw)
            except BaseException as e:      # noqa: BLE001
                self.out["exc"] = e
        self.th = threading.Thread(target=work)
        self.th.start()

    def get(self):
        self.th.join()
        if "exc" in self.out:
            raise self.out["exc"]
        return self.out["res"]


def make_pool():
    import multiprocessing as mp
    return mp.get_context("fork").Pool(8)


def observe_all(cases, pool=None):
    if pool is not None:
        return pool.map(_observe_worker, cases, chunksize=16)
    if len(cases) < 40:
        return [observe(c) for c in cases]
    with make_pool() as p:
        return p.map(_observe_worker, cases, chunksize=16)


def tlc_gridworld_tables(workdir, gw, workers=6):
    if not gw:
        return None
    return run_tlc(workdir, "C20_GridWorld", GW_CFG, files={"batch.json": [gw_record(c) for c in gw]},
                   env={"BATCH_FILE": "batch.json", "MODE": "emit"}, workers=workers)


def use_gridworld_tables(ctx, res):
    if res is None:
        return {}
    ctx.add_tlc(res, "emit: GridWorld reference machine over the batch of layouts/options, exact tables printed")
    if res.violated:
        raise TLCFailure(f"design-level invariant violated in C20_GridWorld (emit): {sorted(set(res.violated))}\n" + (res.traces[0][:3000] if res.traces else ""))
    return {r["iid"]: r for r in res.records if r.get("kind") == "table"}


def tlc_domain_tables(workdir, doms, workers=6):
    if not doms:
        return None
    return run_tlc(workdir, "C20_Domains", DOM_CFG, files={"batch.json": [dom_record(c) for c in doms]},
                   env={"BATCH_FILE": "batch.json"}, workers=workers)


def use_domain_tables(ctx, res):
    if res is None:
        return {}
    ctx.add_tlc(res, "domains: reference dynamics of Windy/Cliff/Tiger/LoadUnload/HeavenOrHell walked from the initial support")
    if res.violated:
        raise TLCFailure(f"design-level invariant violated in C20_Domains: {sorted(set(res.violated))}\n" + (res.traces[0][:3000] if res.traces else ""))
    by = {}
    for r in res.records:
        by.setdefault(r["iid"], []).append(r)
    return by


def tlc_wellformed(ctx, cases, dumps, name="wf"):
    """Returns per case index {"summary", "bad"} (None when the dump has no extracted system)."""
    recs, owner = [], []
    for i, (c, d) in enumerate(zip(cases, dumps)):
        if d["error"] is None:
            recs.append(wf_record(c, d))
            owner.append(i)
    out = [None] * len(cases)
    if not recs:
        return out, recs, owner
    res = run_tlc(ctx.workdir / name, "C20_WellFormed", WF_CFG, files={"batch.json": recs},
                  env={"BATCH_FILE": "batch.json"}, workers=12)
    ctx.add_tlc(res, "wellformed: walk over the transition systems extracted from the real domain objects")
    if "TypeOK" in res.violated:
        raise TLCFailure("TypeOK violated in C20_WellFormed\n" + (res.traces[0][:2000] if res.traces else ""))
    by = {}
    nbad = 0
    for r in res.records:
        e = by.setdefault(r["iid"] - 1, {"summary": None, "bad": []})
        if r["kind"] == "summary":
            e["summary"] = r
        else:
            e["bad"].append(r)
            nbad += 1
    # TLC's invariant verdict and the printed verdict records must tell the same story
    if bool(nbad) != ("WellFormedState" in res.violated):
        raise TLCFailure(f"C20_WellFormed: invariant verdict {res.violated} inconsistent with {nbad} verdict records")
    for k, i in enumerate(owner):
        out[i] = by.get(k, {"summary": None, "bad": []})
    return out, recs, owner


def wf_crosscheck(ctx, recs, owner, wf, every=5):
    for k in range(0, len(recs), every):
        bad, _ = wf_pyjudge(recs[k])
        got = {}
        for r in wf[owner[k]]["bad"]:
            if r["s"] > 0:
                got[r["s"]] = set(r["clauses"])
        # TLC only reports states the walk can stand in; in "all" mode that is every listed state
        for s, cl in got.items():
            if bad.get(s, set()) != cl:
                raise TLCFailure(f"C20_WellFormed and the python judge disagree on extracted system {k} state {s}: {cl} vs {bad.get(s)}")
        summ = wf[owner[k]]["summary"]
        if summ is not None:
            r = recs[k]
            py_ok = abs(F(r["DQ"], r["DS"]) - F(r["GN"], r["GD"])) < F(1, r["DS"])
            if py_ok != (not summ["modelbad"]):
                raise TLCFailure(f"C20_WellFormed and the python judge disagree on the discount clause of extracted system {k}")
        if recs[k]["tag"] == "GridWorld" and set(bad) != set(got):
            raise TLCFailure(f"C20_WellFormed and the python judge disagree on extracted system {k}: {sorted(got)} vs {sorted(bad)}")
        ctx.count("wellformed_crosschecks")


def nontrivial_key(case, d):
    if d["error"] is not None or len(d["states"]) < 2:
        return None
    if case["dom"] == "GridWorld":
        rows = case["rows"]
        cells = "".join(rows)
        if len(cells) >= 2 and any(ch in case["absf"] for ch in cells) and (any(ch in case["walls"] for ch in cells) or len(cells) > 2):
            return digest({k: case[k] for k in case if k not in ("rep", "tag")})
        return None
    return digest({k: case[k] for k in case if k not in ("rep", "tag")})


def report(ctx, case, f, kind):
    for (sig, what, extra) in f.violations:
        ctx.violation(sig, what, {"kind": kind, "case": case, "extra": extra})
    for (step, detail) in f.drifts:
        ctx.drift(step, detail)
    for k, n in f.counts.items():
        ctx.count(k, n)


def judge_all(ctx, gw, doms, *, dumps=None, tables=None, dtables=None, crosscheck=True):
    """Everything after case generation, for GridWorld cases `gw` and other-domain cases `doms`."""
    cases = gw + doms
    if dumps is None:
        dumps = observe_all(cases)         # forks the worker pool before any thread exists
    bg_t = Background(tlc_gridworld_tables, ctx.workdir / "emit", gw) if tables is None else None
    bg_d = Background(tlc_domain_tables, ctx.workdir / "dom", doms) if dtables is None else None
    if bg_t is not None:
        tables = use_gridworld_tables(ctx, bg_t.get())
    if bg_d is not None:
        dtables = use_domain_tables(ctx, bg_d.get())
    wf, recs, owner = tlc_wellformed(ctx, cases, dumps)
    if crosscheck:
        wf_crosscheck(ctx, recs, owner, wf)
    results = []
    seen_samples = set()
    for i, (c, d) in enumerate(zip(cases, dumps)):
        f = Findings()
        ctx.evaluations += d.get("calls", 0) + 1
        ok = judge_common(c, d, wf[i] or {"summary": None, "bad": []}, f)
        if c["dom"] == "GridWorld":
            tab = tables.get(i + 1)
            if tab is None:
                ctx.skip("GridWorld layout without a start cell: no walk, no table")
            else:
                if crosscheck and i % 5 == 0:
                    gw_crosscheck(c, tab)
                    ctx.count("gridworld_oracle_crosschecks")
                ok = judge_gridworld(c, tab, d, f) and ok
                ok = judge_alias(c, tab["fresh"], d, f) and ok
        else:
            recs_i = dtables.get(i - len(gw) + 1, [])
            if not recs_i:
                raise TLCFailure(f"C20_Domains printed no state for case {c}")
            dyn_ok = judge_domain_dynamics(c, recs_i, d, f)
            dyn_ok = judge_alias(c, recs_i[0]["fresh"], d, f) and dyn_ok
            if d["error"] is None and not dyn_ok and not f.drifts:
                pass
            ok = ok and (dyn_ok or d["error"] is not None)
        report(ctx, c, f, "gw" if c["dom"] == "GridWorld" else "dom")
        if ok and not f.violations and not f.drifts:
            ctx.validated += 1
        key = nontrivial_key(c, d)
        if key:
            ctx.nontrivial(key)
        ctx.count(f"cases_{c['dom']}")
        skey = (c["dom"], c["tag"])
        if skey not in seen_samples and c["tag"] not in ("exhaustive-1x1", "exhaustive-2x1", "exhaustive-1x2"):
            seen_samples.add(skey)
            ctx.sample({"case": {k: c[k] for k in c if k != "rep"}, "rep": c.get("rep"),
                        "states": len(d.get("states", [])), "real_calls": d.get("calls", 0),
                        "planned_initial_value": (d.get("vi") or {}).get("initial_value") if isinstance(d.get("vi"), dict) else None}, limit=12)
        results.append(f)
    return results


def mc_families(tier):
    full = [".", "#", "g", "s", "x"]
    sps = [[0, 1], [1, 2], [4, 5], [1, 1]]
    fams = [dict(W=w, H=h, alpha=full, sps=sps) for (w, h) in [(1, 1), (2, 1), (1, 2), (3, 1), (1, 3), (2, 2), (4, 1), (1, 4)]]
    if tier == "thorough":
        fams = [dict(W=w, H=h, alpha=full, sps=sps) for (w, h) in [(1, 1), (2, 1), (1, 2), (3, 1), (1, 3)]]
        fams += [dict(W=3, H=2, alpha=full, sps=sps), dict(W=2, H=3, alpha=full, sps=[[1, 2], [1, 1]]),
                dict(W=3, H=3, alpha=[".", "#", "g"], sps=[[4, 5]]), dict(W=4, H=2, alpha=[".", "#", "g"], sps=[[1, 2]]),
                dict(W=5, H=1, alpha=full, sps=[[1, 2], [0, 1]])]
    return fams


def run_mc(ctx):
    """quick: the small families.  thorough: the small families with per-action coverage (vacuity is
    visible in the evidence), then the big families without (coverage slows TLC down 2-3x)."""
    # TLC's coverage bookkeeping runs out of memory on the nested operators of the shared MDP oracle, so the
    # coverage run leaves that one invariant out; it is evaluated on the same layouts in the other run
    cfg = GW_CFG if ctx.tier == "quick" else GW_CFG.replace("INVARIANT ValueAgreesWithMDPOracle\n", "")
    small = run_tlc(ctx.workdir / "mc", "C20_GridWorld", cfg, files={"batch.json": mc_families("quick")},
                    env={"BATCH_FILE": "batch.json", "MODE": "mc"}, workers=4 if ctx.tier == "quick" else 8,
                    coverage=(ctx.tier == "thorough"), timeout=3000)
    if ctx.tier == "quick":
        return [small]
    big = run_tlc(ctx.workdir / "mcbig", "C20_GridWorld", GW_CFG, files={"batch.json": mc_families("thorough")},
                  env={"BATCH_FILE": "batch.json", "MODE": "mc"}, workers=10, timeout=3000)
    return [small, big]


def run(ctx):
    rng = random.Random(ctx.seed * 104729 + 20)
    ctx.rule = ("GridWorld: every layout with a start cell of sizes 1x1..2x2, 3x1, 1x3 over {. # g s x} (thorough: up to 3x2 / 2x3, "
                "all four success probabilities) plus random layouts up to 5x4 with varied wall / absorbing / start symbols, feature "
                "rewards, step costs, discounts (incl. 1/3, 0.97, 0.123, 0.777), success probabilities {0,1/4,1/2,4/5,1} and the odd values "
                "{1/3, 0.855, 0.999, 1/128, 2/7}, goals cutting the grid, four input "
                "representations; other domains: parameter menus (Tiger, LoadUnload, CliffWalking) and random / goal-cut layouts up "
                "to 5x4 x wind or coherence in {0,..,1} incl. the same odd values x costs x discounts, default feature_rewards=None for "
                "every 12th Windy layout (Windy, HeavenOrHell); non-trivial = the real object "
                "has >= 2 states and (GridWorld) the layout has an absorbing cell and a wall or more than two cells; key = case "
                "without the input representation")
    ctx.assumptions = [
        "TLC evaluates the TLA+ oracles correctly (GridWorld tables and exact values cross-checked against an independent "
        "Fraction implementation on every 5th case; C20_WellFormed verdicts cross-checked against a python judge on every 5th system)",
        "float probabilities are logged as round(p*1e8); a row of n entries counts as normalised within n units (derived in C20_WellFormed)",
        "direct float results are compared with exact rationals at 1e-9 relative; planned values at 1e-10 * cells / success_prob + 1e-9",
        "of the rows of states for which is_absorbing holds only normalisation is judged (their successors are never expanded)",
        "states / actions are values: every query is made with an equal COPY of the label, and another model of the same class "
        "(a bigger all-free layout) is built between reading state_list and querying the transitions",
        "dynamics of the agent standing inside a wall tile and the shape of the initial distribution are implementation-shaped (DRIFT)",
    ]
    t0 = time.time()
    import msdm.algorithms  # noqa: F401  (loaded before forking the workers)
    gw = gw_cases(rng, ctx.tier)
    doms = dom_cases(rng, ctx.tier)
    t1 = time.time()
    pool = make_pool()                     # the workers are forked here, before any thread exists
    mc = Background(run_mc, ctx)
    chunk = 4000
    single = len(gw) + len(doms) <= chunk
    try:
        if single:                         # all TLC runs that only need the cases start right away
            bg_t = Background(tlc_gridworld_tables, ctx.workdir / "emit", gw, 5)
            bg_d = Background(tlc_domain_tables, ctx.workdir / "dom", doms, 4)
        dumps = observe_all(gw + doms, pool)
        pool.close()
        ctx.extra["timing_s"] = {"import_and_generate": round(t1 - t0, 1), "real_code": round(time.time() - t1, 1)}
        if single:
            judge_all(ctx, gw, doms, dumps=dumps, tables=use_gridworld_tables(ctx, bg_t.get()), dtables=use_domain_tables(ctx, bg_d.get()))
        else:
            for k in range(0, len(gw), chunk):
                judge_all(ctx, gw[k:k + chunk], [], dumps=dumps[k:k + chunk])
            for k in range(0, len(doms), chunk):
                judge_all(ctx, [], doms[k:k + chunk], dumps=dumps[len(gw) + k:len(gw) + k + chunk])
    finally:
        pool.terminate()
        mcs = mc.get()
    for res in mcs:
        ctx.add_tlc(res, "mc: GridWorld reference machine over every layout of the listed sizes x success probabilities x every walk")
        if res.violated:
            raise TLCFailure(f"design-level invariant violated in C20_GridWorld (mc): {sorted(set(res.violated))}\n" + (res.traces[0][:3000] if res.traces else ""))


def replay(ctx, case):
    c = case["case"]
    if case.get("kind") == "gw":
        judge_all(ctx, [c], [])
    else:
        judge_all(ctx, [], [c])


def selftest(ctx):
    """Binding demonstration: corrupt values returned by the real code / fields handed to msdm / logged
    entries; each corruption must be detected (as a violation, or as drift for the drift-level models)."""
    rng = random.Random(11)
    gw = [c for c in gw_cases(rng, "quick") if c["tag"] == "random"][:12]
    alld = dom_cases(rng, "quick")
    doms = [c for c in alld if c["dom"] == "Tiger"][:8] + [c for c in alld if c["dom"] == "WindyGridWorld"][:16]
    cases = gw + doms
    dumps = [observe(c) for c in cases]
    base = judge_all(ctx, gw, doms, dumps=dumps)
    clean = [i for i, f in enumerate(base) if not f.violations and not f.drifts and dumps[i]["error"] is None]
    ok = True

    def pick(pred):
        return next(i for i in clean if pred(i))

    def rerun(i, d):
        c = cases[i]
        res = judge_all(ctx, [c] if c["dom"] == "GridWorld" else [], [] if c["dom"] == "GridWorld" else [c], dumps=[d], crosscheck=False)
        return res[0]
    import copy
    # (1) a probability returned by GridWorld.next_state_dist is shifted to the other outcome
    def free_cell(c, st):
        return st != T and c["rows"][len(c["rows"]) - 1 - st[1]][st[0]] not in c["walls"]

    i = pick(lambda i: cases[i]["dom"] == "GridWorld" and 0 < cases[i]["SPN"] < cases[i]["SPD"] and 2 * cases[i]["SPN"] != cases[i]["SPD"]
             and any(len(ent) == 2 and free_cell(cases[i], dumps[i]["states"][s]) for s, rows in enumerate(dumps[i]["rows"]) for ent in rows))
    d = copy.deepcopy(dumps[i])
    done = False
    for s, rows in enumerate(d["rows"]):
        for j, ent in enumerate(rows):
            if len(ent) == 2 and not done and free_cell(cases[i], d["states"][s]):
                (t0, l0, p0, r0), (t1, l1, p1, r1) = ent
                rows[j] = [(t0, l0, p1, r0), (t1, l1, p0, r1)]
                done = True
    f = rerun(i, d)
    hit = any("success-probability" in v[0] for v in f.violations)
    print(f"  selftest 1 (swapped probabilities in a GridWorld row): {'detected' if hit else 'MISSED'}")
    ok &= hit
    # (2) a reward returned by GridWorld.reward is off by one
    d = copy.deepcopy(dumps[i])
    done = False
    for s, rows in enumerate(d["rows"]):
        for j, ent in enumerate(rows):
            if not done and free_cell(cases[i], d["states"][s]) and ent[0][3] is not None and ent[0][2] > 0 and ent[0][1] != T:
                t0, l0, p0, r0 = ent[0]
                ent[0] = (t0, l0, p0, r0 + 1)
                done = True
    f = rerun(i, d)
    hit = any("reward" in v[0] for v in f.violations)
    print(f"  selftest 2 (reward off by one): {'detected' if hit else 'MISSED'}")
    ok &= hit
    # (3) the instance handed to msdm differs from the one TLC saw (success probability)
    c2 = dict(cases[i])
    c2["SPN"], c2["SPD"] = 1, 4 if (cases[i]["SPN"], cases[i]["SPD"]) != (1, 4) else 2
    f = rerun(i, observe(c2))
    hit = bool(f.violations)
    print(f"  selftest 3 (msdm built with another success probability): {'detected' if hit else 'MISSED'}")
    ok &= hit
    # (4) a logged transition entry of a Windy grid loses mass: TLC must refuse normalisation
    i = pick(lambda i: cases[i]["dom"] == "WindyGridWorld")
    d = copy.deepcopy(dumps[i])
    s = next(s for s in range(len(d["states"])) if not d["abs"][s])
    t0, l0, p0, r0 = d["rows"][s][0][0]
    d["rows"][s][0][0] = (t0, l0, p0 * 0.999, r0)
    f = rerun(i, d)
    hit = any("transition-not-normalised" in v[0] for v in f.violations)
    print(f"  selftest 4 (0.1% of a Windy transition row dropped): {'detected' if hit else 'MISSED'}")
    ok &= hit
    # (5) a successor is replaced by a state outside the list
    d = copy.deepcopy(dumps[i])
    t0, l0, p0, r0 = d["rows"][s][0][0]
    d["rows"][s][0][0] = (-1, (99, 99), p0 if p0 else 1.0, r0)
    f = rerun(i, d)
    hit = any("successor-outside-state-list" in v[0] or "transition-not-normalised" in v[0] for v in f.violations)
    print(f"  selftest 5 (successor outside the state list): {'detected' if hit else 'MISSED'}")
    ok &= hit
    # (6) Tiger: an observation row returned by the real code is altered -> TLC verdict + drift
    i = pick(lambda i: cases[i]["dom"] == "Tiger")
    d = copy.deepcopy(dumps[i])
    o0, l0, p0 = d["obs"][2][0][0]
    d["obs"][2][0][0] = (o0, l0, p0 + 0.25)
    f = rerun(i, d)
    hit = any("observation-not-normalised" in v[0] for v in f.violations)
    print(f"  selftest 6 (Tiger observation row altered): {'detected' if hit else 'MISSED'}")
    ok &= hit
    # (7) reference dynamics: a Windy reward is altered -> drift
    i = pick(lambda i: cases[i]["dom"] == "WindyGridWorld")
    d = copy.deepcopy(dumps[i])
    t0, l0, p0, r0 = next(e for e in d["rows"][s][0] if e[2] and e[2] > 0)
    k = d["rows"][s][0].index((t0, l0, p0, r0))
    d["rows"][s][0][k] = (t0, l0, p0, r0 - 3)
    f = rerun(i, d)
    hit = any("reward" in st for st, _ in f.drifts) or any("reward_matrix" in v[0] for v in f.violations)
    print(f"  selftest 7 (Windy reward altered): {'detected' if hit else 'MISSED'}")
    ok &= hit
    # (8) the discount rate read back from a (discounted) object is not the configured one
    i = pick(lambda i: cases[i]["GN"] < cases[i]["GD"] and isinstance(dumps[i].get("vi"), dict) and "V" in dumps[i]["vi"]
             and any(abs(v) > 0.1 for v in dumps[i]["vi"]["V"]))
    d = copy.deepcopy(dumps[i])
    d["discount"] = 1.0
    f = rerun(i, d)
    hit = any("discount-rate-not-the-configured-one" in v[0] for v in f.violations)
    print(f"  selftest 8 (object reports discount 1.0 instead of the configured one): {'detected' if hit else 'MISSED'}")
    ok &= hit
    # (9) a planned value is off: not a fixed point of the optimality equation at the configured discount
    d = copy.deepcopy(dumps[i])
    k = next(k for k, v in enumerate(d["vi"]["V"]) if abs(v) > 0.1)
    d["vi"]["V"][k] *= 1.01
    f = rerun(i, d)
    hit = any("values-not-optimal-at-the-configured-discount" in v[0] for v in f.violations)
    print(f"  selftest 9 (planned value off by 1%): {'detected' if hit else 'MISSED'}")
    ok &= hit
    return ok
