"""C05 - A* and breadth-first search return valid minimum-cost / minimum-step paths.

Pipeline (spec/C05_Search.tla decides every verdict):
  1. random graphs (deterministic MDPs with zero-cost edges, several / unreachable / no goals,
     self-loops, dead ends, absorbing starts, ghost edges out of goals; about one in seven with huge
     integer costs beyond 2**53, modelled structurally: see real_cost / InstanceWellFormed) + a random
     consistent "custom" heuristic each -> batch; state / action labels of the msdm objects are ints,
     strings, tuples, frozendicts, unorderable mixtures and Python-falsy values (None, 0, '', (), ...);
  2. TLC, mode "mc": exact oracle (cost-to-go, hops, cost-from-start, heuristic menu), the A* / BFS
     reference machines over every configuration (tie rule x randomize_action_order x heuristic)
     and every nondeterministic history, design invariants, one emitted record per outcome;
  3. the real planners on msdm objects built from the same graphs in many concrete
     representations (spec -> code replay: the heuristic vectors TLC emitted are the ones handed to
     AStarSearch); each returned Result is projected to abstract indices;
       - outcome not among the outcomes TLC enumerated for that configuration -> DRIFT;
     besides stand-alone runs the histories include (a) interleaved conversions: two different
     plain-MDP graphs are converted with from_mdp first, then both wrappers are searched, in both
     orders; (b) the "relaxed" heuristic: heuristic_value lazily runs a nested AStarSearch /
     BreadthFirstSearch on a relaxed copy (costs min(c,1)) of the graph given as a plain MDP - the
     nested conversion happens while the outer search is running; every nested result is judged
     like a stand-alone run on the relaxed graph; (c) planner re-use: the SAME planner object plans
     graph A and then graph `then` over the same label set (spec action PlanNext: the second call
     must behave like a fresh search); (d) the "many revisions" family (30-40 states, 6 actions,
     costs 0..40, zero heuristic): too big for the machines, judged by the spec's clauses against
     its relaxation oracle only; (e) the same MDP object is planned on, gets another initial state
     in place and is planned on again (judged as the problem with the new initial state); (f) the
     policy of a returned result is read only after several later searches have run (a returned
     result must stay valid).  Representations also include problems that keep their graph as
     parallel lists and hand out the stored action list itself, and problems that define no actions /
     transitions at absorbing states (actions(s) raises there), actions handed out as one-shot iterators,
     single-entry DictDistributions whose mass is a float sum (0.9999999999999999); (g) solution paths of
     more than 1000 states, modelled structurally as corridor edges (field len: the real run is on the
     expanded graph, expand_corridors / collapse); DRIFT-level probe: the policy of a result should not
     depend on the caller emptying the returned path list (outside the statement);
  4. TLC, mode "judge": every distinct real outcome is one Return event; the clauses of the
     statement (Fails) are evaluated by the spec -> VIOLATION per failing clause;
  5. TLC, mode "trace": for a third (quick) / an eighth (thorough) of the runs the visit events
     observed through the MDP object (state expanded, order in which its actions were tried) are
     replayed on the reference machine; a trace no behaviour of the machine explains -> DRIFT.
The TLA+ oracle is cross-checked against an independent Python implementation on every graph.
"""
import math
import random
import signal
import traceback

from ..core import digest
from ..tlc import run_tlc, TLCFailure

INF = 1000000
MODULE = "C05_Search"

CFG_MC = """INIT Init
NEXT Next
CHECK_DEADLOCK FALSE
INVARIANT Emit
INVARIANT MachineSatisfiesC05
INVARIANT AssertionsNeverFire
INVARIANT SupersededOnlyAmongInfiniteTies
INVARIANT InstanceWellFormed
INVARIANT HeuristicsConsistent
INVARIANT VisitedWithOptimalCost
INVARIANT QueueRevisionSound
INVARIANT FrontierSound
INVARIANT NoStuckState
"""
DESIGN_INVS = ["MachineSatisfiesC05", "AssertionsNeverFire", "SupersededOnlyAmongInfiniteTies", "InstanceWellFormed", "HeuristicsConsistent",
               "VisitedWithOptimalCost", "QueueRevisionSound", "FrontierSound", "NoStuckState"]

CFG_TRACE = """INIT Init
NEXT Next
CHECK_DEADLOCK FALSE
INVARIANT Emit
INVARIANT MachineSatisfiesC05
INVARIANT AssertionsNeverFire
INVARIANT SupersededOnlyAmongInfiniteTies
INVARIANT VisitedWithOptimalCost
INVARIANT QueueRevisionSound
INVARIANT FrontierSound
"""

CFG_JUDGE = """INIT Init
NEXT Next
CHECK_DEADLOCK FALSE
INVARIANT Emit
INVARIANT RealRunSatisfiesC05
"""

HKS = ("zero", "exact", "half", "custom")     # + "relaxed" (nested search) in three configurations
DIST_KINDS = ("det", "dictdet", "dict1", "dictsum", "ulist", "utuple", "uset")
LABEL_KINDS = ("int", "str", "tuple", "frozendict", "mixed", "falsy", "falsy")


def all_cfgs():
    cf = []
    for tie in ("lifo", "fifo", "random"):
        for rnd in (0, 1):
            for hk in HKS:
                cf.append(dict(alg="astar", tie=tie, rnd=rnd, hk=hk))
    # heuristic = nested search on a relaxed copy of the graph, called lazily inside heuristic_value
    cf.append(dict(alg="astar", tie="lifo", rnd=0, hk="relaxed"))
    cf.append(dict(alg="astar", tie="fifo", rnd=0, hk="relaxed"))
    cf.append(dict(alg="astar", tie="random", rnd=1, hk="relaxed"))
    for rnd in (0, 1):
        cf.append(dict(alg="bfs", tie="fifo", rnd=rnd, hk="zero"))
    return cf


# --------------------------------------------------------------------------------------------
# independent oracle (plain Python integers) - cross-check of the TLA+ one
# --------------------------------------------------------------------------------------------
def py_oracle(g):
    N, K = g["N"], g["K"]

    def togo(unit, relaxed=False):
        d = [0 if g["goal"][s] else INF for s in range(N)]
        for _ in range(N + 1):
            changed = False
            for s in range(N):
                if g["goal"][s]:
                    continue
                for a in range(K):
                    if g["avail"][s][a]:
                        t = g["nxt"][s][a] - 1
                        c = 1 if unit else (min(g["cost"][s][a], 1) if relaxed else g["cost"][s][a])
                        if d[t] < INF and c + d[t] < d[s]:
                            d[s] = c + d[t]
                            changed = True
            if not changed:
                break
        return d

    frm = [INF] * N
    frm[g["start"] - 1] = 0
    for _ in range(N + 1):
        for s in range(N):
            if g["goal"][s] or frm[s] >= INF:
                continue
            for a in range(K):
                if g["avail"][s][a]:
                    t = g["nxt"][s][a] - 1
                    if frm[s] + g["cost"][s][a] < frm[t]:
                        frm[t] = frm[s] + g["cost"][s][a]
    return {"togo": togo(False), "hops": togo(True), "from": frm, "relaxed": togo(False, True)}


def consistent_closure(g, h):
    """Largest consistent heuristic (half units) below h."""
    N, K = g["N"], g["K"]
    h = list(h)
    for s in range(N):
        if g["goal"][s]:
            h[s] = 0
    changed = True
    while changed:
        changed = False
        for s in range(N):
            if g["goal"][s]:
                continue
            for a in range(K):
                if g["avail"][s][a]:
                    t = g["nxt"][s][a] - 1
                    b = INF if h[t] >= INF else 2 * g["cost"][s][a] + h[t]
                    if h[s] > b:
                        h[s] = b
                        changed = True
    return h


# --------------------------------------------------------------------------------------------
# huge integer costs (beyond 2**53), modelled structurally
# --------------------------------------------------------------------------------------------
# An instance with cbase = B > 0 stands for the real problem whose edge costs are
#     real(c) = (c div B) * M + (c mod B),         M = cbig (2**53, 2**53 + 1, 10**18 + 1, 10**30 + 7)
# The spec works on the abstract costs c (32-bit); real() is additive and order preserving on every sum
# the search can form as long as the residues (c mod B) of one path never add up to B, which is an
# instance filter checked by TLC (InstanceWellFormed).  Python integers are exact, so are the real costs.
BIGS = [2 ** 53, 2 ** 53 + 1, 10 ** 18 + 1, 10 ** 30 + 7]
CBASE = 1000


def real_cost(g, c):
    B = g.get("cbase", 0)
    if not B:
        return c
    return (c // B) * int(g["cbig"]) + (c % B)


def abstract_cost(g, v):
    """Inverse of real_cost on exact integers; None when v is not the image of an abstract value."""
    B = g.get("cbase", 0)
    if not B:
        return v
    q, r = divmod(v, int(g["cbig"]))
    return q * B + r if r < B else None


# --------------------------------------------------------------------------------------------
# graph family
# --------------------------------------------------------------------------------------------
COST_MENUS = [(1,), (0, 1), (0, 1, 2, 3), (1, 2, 3, 5), (0, 0, 1, 4), (0, 1, 2, 3, 4), (1, 1, 2)]


def rand_graph(rng, N, K):
    menu = rng.choice(COST_MENUS)
    pav = rng.choice([1.0, 0.85, 0.7])
    pgoal = rng.choice([0.0, 0.15, 0.25, 0.4])
    pself = rng.choice([0.0, 0.2])
    g = dict(N=N, K=K)
    g["avail"] = [[1 if rng.random() < pav else 0 for _ in range(K)] for _ in range(N)]
    g["nxt"] = [[(s + 1 if rng.random() < pself else rng.randrange(N) + 1) for _ in range(K)] for s in range(N)]
    g["cost"] = [[rng.choice(menu) for _ in range(K)] for _ in range(N)]
    g["goal"] = [1 if rng.random() < pgoal else 0 for _ in range(N)]
    if pgoal > 0 and not any(g["goal"]) and rng.random() < 0.8:
        g["goal"][rng.randrange(N)] = 1
    g["start"] = rng.randrange(N) + 1
    g["cbase"], g["cbig"] = 0, "1"
    if rng.random() < 0.14:              # huge integer costs: multiples of M plus a small residue
        g["cbase"], g["cbig"] = CBASE, str(rng.choice(BIGS))
        g["cost"] = [[rng.choice([0, 1, 1, 2, 3]) * CBASE + rng.choice([0, 0, 1, 2, 3]) for _ in range(K)] for _ in range(N)]
    return g


def make_graphs(rng, n, sizes):
    """n graphs; trivial shapes are kept with a fixed small share so that every corner of the
    quantifier stays in the sample while most graphs leave room for a wrong answer."""
    out = []
    seen = set()
    while len(out) < n:
        N, K = rng.choice(sizes)
        g = rand_graph(rng, N, K)
        o = py_oracle(g)
        s0 = g["start"] - 1
        if g["goal"][s0]:
            keep = 0.12                      # absorbing initial state
        elif o["togo"][s0] >= INF:
            keep = 0.1                       # no absorbing state reachable
        elif o["hops"][s0] <= 1:
            keep = 0.25
        else:
            keep = 1.0
        if rng.random() > keep:
            continue
        # custom consistent heuristic (half units): random below the exact one, closed
        raw = []
        for s in range(N):
            if o["togo"][s] >= INF:
                raw.append(rng.choice([INF, INF, rng.randrange(0, 8)]))
            else:
                raw.append(rng.randrange(0, 2 * o["togo"][s] + 1))
        g["hc"] = consistent_closure(g, raw)
        key = digest(g)
        if key in seen:
            continue
        seen.add(key)
        g["cfgs"] = all_cfgs()
        if g["cbase"]:                   # heuristics must be exact integers there: zero and exact only
            g["cfgs"] = [c for c in g["cfgs"] if c["hk"] in ("zero", "exact")]
        out.append(g)
    return out


# --------------------------------------------------------------------------------------------
# building msdm objects
# --------------------------------------------------------------------------------------------
def make_labels(kind, n, prefix, rng):
    from frozendict import frozendict
    if kind == "int":
        labs = list(range(n))
    elif kind == "str":
        labs = [f"{prefix}{i}" for i in range(n)]
    elif kind == "tuple":
        labs = [(prefix, i) for i in range(n)]
    elif kind == "frozendict":           # hashable, not orderable
        labs = [frozendict(x=i, k=prefix) for i in range(n)]
    elif kind == "mixed":                # mutually unorderable
        pool = [lambda i: i, lambda i: f"{prefix}{i}", lambda i: (prefix, i), lambda i: frozendict(x=i)]
        labs = [pool[i % len(pool)](i) for i in range(n)]
    elif kind == "falsy":                # legal hashable labels that are falsy in Python (None, 0, '', (), ...)
        pool = [None, 0, "", (), frozenset(), b"", frozendict(), 0.5, "x", -1]
        labs = (pool + [("f", i) for i in range(n)])[:n]
    else:
        raise ValueError(kind)
    rng.shuffle(labs)                    # label order is unrelated to the abstract order
    return labs


def one_point(kind, x):
    """A distribution with the single outcome x, in the named representation."""
    from msdm.core.distributions import DictDistribution, DeterministicDistribution, UniformDistribution
    if kind == "det":
        return DeterministicDistribution(x)
    if kind == "dictdet":
        return DictDistribution.deterministic(x)
    if kind == "dict1":
        return DictDistribution({x: 1.0})
    if kind == "dictsum":                # one entry whose mass is the float sum of ten tenths (0.9999999999999999)
        return DictDistribution.from_pairs([(x, 0.1)] * 10)
    if kind == "ulist":
        return UniformDistribution([x])
    if kind == "utuple":
        return UniformDistribution((x,))
    if kind == "uset":
        return UniformDistribution({x})
    raise ValueError(kind)


class Budget(Exception):
    pass


def build(g, rep, rng):
    """rep = dict(container, init, trans, labels, alabels, actions_as, reward_as).  Returns
    (mdp, state labels, action labels)."""
    from msdm.core.mdp import MarkovDecisionProcess, QuickMDP
    from msdm.core.mdp.deterministic_shortest_path import DeterministicShortestPathProblem
    N, K = g["N"], g["K"]
    sl = make_labels(rep["labels"], N, "s", rng)
    al = make_labels(rep["alabels"], K, "a", rng)
    sidx = {l: i for i, l in enumerate(sl)}
    aidx = {l: i for i, l in enumerate(al)}
    as_list = rep["actions_as"] == "list"
    # "stored": the problem keeps its graph as parallel lists (action labels / successors / costs per state),
    # actions(s) returns the stored list object itself and transitions are looked up by position in it
    stored = rep["actions_as"] == "stored"
    avail_idx = [[a for a in range(K) if g["avail"][s][a]] for s in range(N)]
    stored_labels = [[al[a] for a in avail_idx[s]] for s in range(N)]
    strict_goals = rep.get("goal_actions", "ghost") == "raise"   # no actions are defined at absorbing states
    ctl = {}
    as_float = rep["reward_as"] == "float" and not g.get("cbase")       # huge costs are exact as integers only
    calls = [0]
    cap = 2000 * (N * K + 2)             # a terminating search needs at most N*K successor look-ups
    visits = []                          # event log: [state whose actions were asked for, [actions tried, in order]]

    def tick():
        calls[0] += 1
        if calls[0] > cap:
            raise Budget(f"more than {cap} calls into the MDP")

    def actions(s):
        tick()
        if strict_goals and g["goal"][sidx[s]]:
            raise KeyError(f"no actions are defined at the absorbing state {s!r}")
        visits.append([sidx[s] + 1, []])
        if stored:
            return stored_labels[sidx[s]]
        acts = [al[a] for a in range(K) if g["avail"][sidx[s]][a]]
        if rep["actions_as"] == "iterator":      # a one-shot iterable
            return (a for a in acts)
        return acts if as_list else tuple(acts)

    def edge(s, a):
        """abstract (state, action) indices of the transition the problem takes for labels (s, a)"""
        i = sidx[s]
        if strict_goals and g["goal"][i]:
            raise KeyError(f"no transitions are defined at the absorbing state {s!r}")
        if stored:
            return i, avail_idx[i][stored_labels[i].index(a)]
        j = aidx[a]
        if not g["avail"][i][j]:
            raise KeyError(f"action {a!r} is not available in state {s!r}")
        return i, j

    def nxt(s, a):
        tick()
        i, j = edge(s, a)
        if visits and visits[-1][0] == i + 1:
            visits[-1][1].append(aidx[a] + 1)
        else:
            visits.append([0, [aidx[a] + 1]])  # a successor asked for outside an expansion: explained by no action
        return sl[g["nxt"][i][j] - 1]

    def reward(s, a, ns):
        i, j = edge(s, a)
        if sl[g["nxt"][i][j] - 1] != ns:
            raise KeyError(f"reward asked for a transition that does not exist: {s!r} {a!r} {ns!r}")
        c = real_cost(g, g["cost"][i][j])
        return -float(c) if as_float else -c

    def is_abs(s):
        tick()
        return bool(g["goal"][sidx[s]])

    start = sl[g["start"] - 1]
    ctl["start"] = start                 # the initial state can be changed in place (call histories)
    cont = rep["container"]
    if cont == "dsp":
        class _DSP(DeterministicShortestPathProblem):
            def next_state(self, s, a):
                return nxt(s, a)

            def initial_state(self):
                return ctl["start"]

            def actions(self, s):
                return actions(s)

            def reward(self, s, a, ns):
                return reward(s, a, ns)

            def is_absorbing(self, s):
                return is_abs(s)
        mdp = _DSP()
    elif cont == "quick_next_state":
        if start is None:                # QuickMDP reads initial_state=None as "not given" (its API, not C05's business)
            from msdm.core.distributions import DeterministicDistribution
            mdp = QuickMDP(next_state=nxt, initial_state_dist=DeterministicDistribution(start), reward=reward,
                           actions=actions, is_absorbing=is_abs)
        else:
            mdp = QuickMDP(next_state=nxt, initial_state=start, reward=reward, actions=actions, is_absorbing=is_abs)
    elif cont == "quick":
        mdp = QuickMDP(next_state_dist=lambda s, a: one_point(rep["trans"], nxt(s, a)),
                       initial_state_dist=lambda: one_point(rep["init"], ctl["start"]),
                       reward=reward, actions=actions, is_absorbing=is_abs)
    elif cont == "class":
        class _M(MarkovDecisionProcess):
            def next_state_dist(self, s, a):
                return one_point(rep["trans"], nxt(s, a))

            def initial_state_dist(self):
                return one_point(rep["init"], ctl["start"])

            def actions(self, s):
                return actions(s)

            def reward(self, s, a, ns):
                return reward(s, a, ns)

            def is_absorbing(self, s):
                return is_abs(s)
        mdp = _M()
    else:
        raise ValueError(cont)
    ctl["visits"] = visits
    return mdp, sl, al, visits, ctl


def rand_rep(rng, plain=False):
    if plain:     # representations the unchanged code is known to take (used by the self-test)
        c = rng.choice(["dsp", "quick_next_state", "class"])
        ik, tk = rng.choice(["det", "ulist"]), rng.choice(["det", "utuple"])
    else:
        c = rng.choice(["dsp", "quick_next_state", "quick", "class", "class", "class"])
        ik, tk = rng.choice(DIST_KINDS), rng.choice(DIST_KINDS)
    if c == "dsp":
        ik = tk = "native"
    elif c == "quick_next_state":
        ik = tk = "det"
    return dict(container=c, init=ik, trans=tk, labels=rng.choice(LABEL_KINDS), alabels=rng.choice(LABEL_KINDS),
                actions_as=rng.choice(["tuple", "list"] if plain else ["tuple", "list", "stored", "stored", "iterator"]),
                reward_as=rng.choice(["int", "float"]),
                goal_actions="ghost" if plain else rng.choice(["ghost", "ghost", "raise"]))


# --------------------------------------------------------------------------------------------
# running the real code
# --------------------------------------------------------------------------------------------
class _Timeout(Exception):
    pass


def _alarm(signum, frame):
    raise _Timeout()


CPU_LIMIT_S = 3.0    # process CPU seconds for one plan_on on a graph of <= 8 nodes (normal: < 1 ms)
NONTERM = {"n": 0}   # non-terminating runs seen so far; after a few the limit shrinks, later runs are skipped
NONTERM_FAST, NONTERM_STOP = 5, 25


def call_site(tb):
    """Innermost msdm frame of a traceback -> readable call site."""
    site = None
    for fr in traceback.extract_tb(tb):
        if "/msdm/" in fr.filename:
            site = fr
    if site is None:
        return None
    fn = site.name
    if "deterministic_shortest_path" in site.filename and fn in ("initial_state", "next_state"):
        return f"DeterministicShortestPathProblem.from_mdp.{fn}"
    mod = site.filename.rsplit("/", 1)[-1][:-3]
    if mod == "search" and fn == "plan_on":
        return None                      # the caller names the planner class
    return f"{mod}.{fn}"


def slug(msg, n=6):
    words = "".join(ch.lower() if ch.isalnum() else " " for ch in str(msg)).split()
    return "-".join(words[:n])


def _guarded(fn, planner_name, out):
    """Run fn() under the CPU limit; exceptions become an "error" outcome in out.  Returns (ok, value)."""
    try:
        old = signal.signal(signal.SIGVTALRM, _alarm)
        signal.setitimer(signal.ITIMER_VIRTUAL, CPU_LIMIT_S if NONTERM["n"] < NONTERM_FAST else 0.3)
        try:
            return True, fn()
        finally:
            signal.setitimer(signal.ITIMER_VIRTUAL, 0)
            signal.signal(signal.SIGVTALRM, old)
    except (_Timeout, Budget, MemoryError) as e:
        NONTERM["n"] += 1
        out.update(kind="error", site=f"{planner_name}.plan_on", exc="no-termination",
                   note=f"{type(e).__name__}: {e}"[:200])
    except Exception as e:                                   # noqa: BLE001 - judged as a clause failure
        site = call_site(e.__traceback__) or f"{planner_name}.plan_on"
        exc = type(e).__name__
        if isinstance(e, AssertionError):
            exc += "-" + slug(e)
        out.update(kind="error", site=site, exc=exc, note=f"{type(e).__name__}: {e}"[:300])
    return False, None


def project_policy(res, aidx, out):
    """The action the returned policy takes at every state of the returned path (abstract, 0 = none)."""
    if res is None or out["kind"] != "path" or not out["path"]:
        return out
    acts = []
    try:
        for s in list(res.path)[:-1]:
            try:
                sup = list(res.policy.action_dist(s).support)
                acts.append(aidx.get(sup[0], 0) if len(sup) == 1 and _hashable(sup[0]) else 0)
            except Exception as e:                           # noqa: BLE001
                acts.append(0)
                out["note"] = f"policy at path state failed: {type(e).__name__}: {e}"[:200]
    except Exception as e:                                   # noqa: BLE001
        out["path"], acts = [], []
        out["note"] = f"result could not be projected: {type(e).__name__}: {e}"[:200]
    out["acts"] = acts
    return out


def project(res, alg, sidx, aidx, out, g=None, defer_policy=False):
    """Result of plan_on -> abstract (1-based) path, action of the returned policy at every path state,
    path_value, visited.  With defer_policy the policy is read later (project_policy), i.e. possibly
    after other searches have run: a returned result must stay valid."""
    if res is None:
        out["kind"] = "none"
        return out
    out["kind"] = "path"
    try:
        path = list(res.path)
        out["path"] = [sidx.get(s, 0) if _hashable(s) else 0 for s in path]
        out["acts"] = [0] * max(len(path) - 1, 0)
        if alg == "astar":
            v = res.path_value
            out["raw_value"] = repr(v)
            if g is not None and g.get("cbase"):
                # exact: an integer (or integral float) that is the image of an abstract cost, else "no such cost"
                iv = v if isinstance(v, int) else (int(v) if float(v).is_integer() else None)
                av = abstract_cost(g, iv) if iv is not None and iv >= 0 else None
                out["value"] = av if av is not None and av < INF else -999
            else:
                fv = float(v)
                out["value"] = int(fv) if fv.is_integer() and abs(fv) < INF else -999
    except Exception as e:                                   # noqa: BLE001
        out["path"], out["acts"] = [], []
        out["note"] = f"result could not be projected: {type(e).__name__}: {e}"[:200]
    try:                                                     # not part of the statement: DRIFT level only
        out["visited"] = sorted(sidx.get(s, 0) for s in res.visited)
    except Exception as e:                                   # noqa: BLE001
        out["visited"] = [-1]
        out["note"] += f" visited not readable: {type(e).__name__}"
    if not defer_policy:
        project_policy(res, aidx, out)
    return out


def relaxed_copy(g, start):
    """The relaxed problem behind the "relaxed" heuristic: same graph, costs min(c, 1), given start."""
    return dict(N=g["N"], K=g["K"], avail=g["avail"], nxt=g["nxt"], goal=g["goal"], start=start,
                cost=[[min(c, 1) for c in row] for row in g["cost"]], hc=[0] * g["N"], cfgs=[], cbase=0, cbig="1")


def nested_heuristic(g, sl, build_seed, sink):
    """heuristic_value(s) = - cost of the plan a *nested* search finds on the relaxed copy of the graph,
    given as a plain MDP (so the nested plan_on converts it with from_mdp while the outer search is
    running).  Every nested result is appended to sink and judged like a stand-alone run."""
    from msdm.algorithms.search import AStarSearch, BreadthFirstSearch
    sidx0 = {l: i for i, l in enumerate(sl)}
    unit = all(g["cost"][s][a] >= 1 for s in range(g["N"]) for a in range(g["K"])
               if g["avail"][s][a] and not g["goal"][s])
    use_bfs = unit and build_seed % 3 == 0               # all relaxed costs are 1: steps = cost
    memo = {}

    def hv(s):
        i = sidx0[s]
        if i in memo:
            return memo[i]
        gr = relaxed_copy(g, i + 1)
        rng = random.Random(build_seed * 31 + i)
        rp = dict(container=rng.choice(["class", "quick"]), init=rng.choice(DIST_KINDS), trans=rng.choice(DIST_KINDS),
                  labels=rng.choice(LABEL_KINDS), alabels=rng.choice(LABEL_KINDS), actions_as="tuple", reward_as="int")
        mdp, sl2, al2, _, _ = build(gr, rp, rng)
        alg = "bfs" if use_bfs else "astar"
        out = {"kind": None, "path": [], "acts": [], "value": -1, "visited": [], "note": "nested search inside heuristic_value", "visits": []}
        planner = BreadthFirstSearch() if use_bfs else AStarSearch()
        try:
            res = planner.plan_on(mdp)
        except (_Timeout, Budget):
            raise
        except Exception as e:                               # noqa: BLE001
            exc = type(e).__name__ + ("-" + slug(e) if isinstance(e, AssertionError) else "")
            out.update(kind="error", site=call_site(e.__traceback__) or type(planner).__name__ + ".plan_on", exc=exc,
                       note=f"nested search inside heuristic_value: {type(e).__name__}: {e}"[:300])
            sink.append({"derived": gr, "alg": alg, "res": out, "rep": rp})
            raise
        project(res, alg, {l: k + 1 for k, l in enumerate(sl2)}, {l: k + 1 for k, l in enumerate(al2)}, out)
        sink.append({"derived": gr, "alg": alg, "res": out, "rep": rp})
        if res is None:
            h = -math.inf
        elif use_bfs:
            h = -(len(res.path) - 1)
        else:
            h = -res.path_value
        memo[i] = h
        return h
    return hv


class Prepared:
    """One real execution, split so that several conversions can precede the searches."""

    def __init__(self, g, cfg, h2, rep, seed, build_seed, preconvert=False, shared=None):
        from msdm.algorithms.search import AStarSearch, BreadthFirstSearch
        from msdm.core.mdp.deterministic_shortest_path import DeterministicShortestPathProblem
        self.cfg = cfg
        self.g = g
        rng = random.Random(build_seed)
        mdp, sl, al, visits, ctl = build(g, rep, rng)
        self.ctl, self.sl = ctl, sl
        self.sidx = {l: i + 1 for i, l in enumerate(sl)}
        self.aidx = {l: i + 1 for i, l in enumerate(al)}
        self.nested = []
        self.out = {"kind": None, "path": [], "acts": [], "value": -1, "visited": [], "note": "", "visits": visits}
        self.name = "AStarSearch" if cfg["alg"] == "astar" else "BreadthFirstSearch"
        self.target = mdp
        self.planner = None
        self.shared = shared             # one planner object used for several problems in a row
        self.hvfn = lambda s: 0

        def make():
            randomized = cfg["rnd"] == 1 or (cfg["alg"] == "astar" and cfg["tie"] == "random")
            if cfg["alg"] == "astar":
                kw = dict(tie_breaking_strategy=cfg["tie"], randomize_action_order=bool(cfg["rnd"]))
                if randomized:
                    kw["seed"] = seed
                if cfg["hk"] == "relaxed":
                    kw["heuristic_value"] = self.hvfn = nested_heuristic(g, sl, build_seed, self.nested)
                elif not (cfg["hk"] == "zero" and (build_seed % 2 == 0 or shared is not None)):   # every other zero run: the default heuristic
                    if g.get("cbase"):   # exact integers (h2 is even for the zero and exact heuristics)
                        hv = {l: (-math.inf if h2[i] >= INF else -real_cost(g, h2[i] // 2)) for i, l in enumerate(sl)}
                    else:
                        hv = {l: (-math.inf if h2[i] >= INF else -h2[i] / 2) for i, l in enumerate(sl)}
                    kw["heuristic_value"] = self.hvfn = lambda s: hv[s]
                if shared is not None:   # the heuristic of the shared planner looks up the current problem's table
                    kw["heuristic_value"] = lambda s: shared["fn"](s)
                    if "planner" not in shared:
                        shared["planner"] = AStarSearch(**kw)
                    self.planner = shared["planner"]
                else:
                    self.planner = AStarSearch(**kw)
            elif shared is not None:
                if "planner" not in shared:
                    shared["planner"] = BreadthFirstSearch(seed=seed if randomized else None, randomize_action_order=bool(cfg["rnd"]))
                self.planner = shared["planner"]
            else:
                self.planner = BreadthFirstSearch(seed=seed if randomized else None, randomize_action_order=bool(cfg["rnd"]))
            if preconvert:     # the conversion is done now, the search later (other conversions in between)
                self.target = DeterministicShortestPathProblem.from_mdp(mdp)
        _guarded(make, self.name, self.out)

    def execute(self, defer_policy=False):
        self.res = None
        if self.out["kind"] == "error":
            return self.out
        if self.shared is not None:
            self.shared["fn"] = self.hvfn
        ok, res = _guarded(lambda: self.planner.plan_on(self.target), self.name, self.out)
        if ok:
            self.res = res
            project(res, self.cfg["alg"], self.sidx, self.aidx, self.out, self.g, defer_policy=defer_policy)
        return self.out

    def complete(self, out=None):
        """Reads the policy of a result whose projection was deferred."""
        return project_policy(self.res, self.aidx, self.out)

    def restart(self, new_start):
        """The SAME MDP object, its initial state changed in place, is planned on again."""
        self.ctl["start"] = self.sl[new_start - 1]
        self.out["visits"] = [[v[0], list(v[1])] for v in self.out["visits"]]   # the log keeps growing: snapshot
        self.out = {"kind": None, "path": [], "acts": [], "value": -1, "visited": [], "note": "", "visits": []}
        self.g = dict(self.g, start=new_start)
        return self.execute()


def run_real(g, cfg, h2, rep, seed, build_seed, nested_sink=None):
    """One plan_on of the real planner; the Result projected to abstract (1-based) indices."""
    p = Prepared(g, cfg, h2, rep, seed, build_seed)
    out = p.execute()
    if nested_sink is not None:
        nested_sink.extend(p.nested)
    return out


def _hashable(x):
    try:
        hash(x)
        return True
    except TypeError:
        return False


# --------------------------------------------------------------------------------------------
# judging
# --------------------------------------------------------------------------------------------
def gcore(g):
    return {k: g[k] for k in ("N", "K", "avail", "nxt", "cost", "goal", "start", "hc", "cbase", "cbig", "len") if k in g}


def graph_for_tlc(g):
    d = gcore(g)
    d.setdefault("cbase", 0)
    d.setdefault("cbig", "1")
    d["cbig"] = str(d["cbig"])           # far beyond 32 bits: a name for TLC, the number for Python
    d["then"] = g.get("then", 0)         # the graph the same planner object plans next (index in the batch)
    d["len"] = g.get("len") or [[1] * g["K"] for _ in range(g["N"])]     # corridor edges (see expand_corridors)
    d["cfgs"] = g["cfgs"]
    return d


def mc(ctx, graphs, tag="mc"):
    if not graphs:
        return {}, {}
    res = run_tlc(ctx.workdir / tag, MODULE, CFG_MC,
                  files={"batch.json": {"graphs": [graph_for_tlc(g) for g in graphs], "runs": []}},
                  env={"BATCH_FILE": "batch.json", "MODE": "mc"}, coverage=(ctx.tier == "thorough"))
    ctx.add_tlc(res, "mc: oracle + A*/BFS machines over every configuration and history of the batch")
    bad = [v for v in res.violated if v in DESIGN_INVS]
    if bad:
        raise TLCFailure(f"design-level invariant violated in {MODULE}: {sorted(set(bad))}\n"
                         + (res.traces[0][:3000] if res.traces else ""))
    orc, outcomes = {}, {}
    for r in res.records:
        if r["kind"] == "oracle":
            orc[r["iid"]] = r
        elif r["kind"] == "outcome":
            outcomes.setdefault((r["iid"], r["cid"], r["prev"]), []).append(r)
    for i, g in enumerate(graphs, start=1):
        o = orc.get(i)
        if o is None:
            raise TLCFailure(f"no oracle record for graph {i}")
        po = py_oracle(g)
        for k in ("togo", "hops", "from"):
            if list(o[k]) != po[k]:
                raise TLCFailure(f"TLA+ oracle and Python oracle disagree on graph {i} ({k}): {o[k]} vs {po[k]}\n{g}")
        if list(o["hz"]["relaxed"]) != [INF if x >= INF else 2 * x for x in po["relaxed"]]:
            raise TLCFailure(f"TLA+ and Python disagree on the relaxed heuristic of graph {i}")
        if list(o["hz"]["custom"]) != g["hc"]:
            raise TLCFailure(f"custom heuristic of graph {i} not read back identically")
        ctx.count("oracle_crosschecks")
        for c in range(1, len(g["cfgs"]) + 1):
            if not outcomes.get((i, c, 0)):
                raise TLCFailure(f"no outcome emitted for graph {i} configuration {c}")
            if g.get("then") and not outcomes.get((g["then"], c, i)):
                raise TLCFailure(f"no outcome emitted for the second call of the planner after graph {i} configuration {c}")
    return orc, outcomes


def outcome_key(o):
    if o["kind"] != "path":              # plan_on returns None: nothing else is observable
        return (o["kind"],)
    return (o["kind"], tuple(o["path"]), tuple(o["acts"]), o["value"], tuple(sorted(o.get("visited", []))))


def judge(ctx, graphs, runs, tag="judge"):
    """runs: list of dict(gid, alg, res) -> list of (fails, shape)."""
    uniq, index = [], {}
    for r in runs:
        res = r["res"]
        key = (r["gid"], r["alg"], res["kind"], tuple(res["path"]), tuple(res["acts"]), res["value"])
        if key not in index:
            index[key] = len(uniq) + 1
            uniq.append({"gid": r["gid"], "alg": r["alg"],
                         "res": {"kind": res["kind"], "path": list(res["path"]), "acts": list(res["acts"]),
                                 "value": res["value"]}})
        r["_jid"] = index[key]
    if not uniq:
        return []
    gl = [dict(graph_for_tlc(g), cfgs=[]) for g in graphs]
    res = run_tlc(ctx.workdir / tag, MODULE, CFG_JUDGE, files={"batch.json": {"graphs": gl, "runs": uniq}},
                  env={"BATCH_FILE": "batch.json", "MODE": "judge"})
    ctx.add_tlc(res, "judge: the clauses of the statement evaluated on every distinct outcome of the real code")
    verd = {r["jid"]: r for r in res.records if r["kind"] == "verdict"}
    if len(verd) != len(uniq):
        raise TLCFailure(f"judge run returned {len(verd)} verdicts for {len(uniq)} outcomes")
    any_fail = any(v["fails"] for v in verd.values())
    if any_fail != ("RealRunSatisfiesC05" in res.violated):
        raise TLCFailure("judge run: emitted verdicts and invariant RealRunSatisfiesC05 disagree")
    ctx.count("distinct_outcomes_judged", len(uniq))
    return [(sorted(verd[r["_jid"]]["fails"]), verd[r["_jid"]]["shape"]) for r in runs]


def validate_traces(ctx, graphs, runs, tag="trace"):
    """Pipeline B: the visit events recorded from the real code (through the MDP object handed to the
    planner - no hook needed) are replayed on the reference machine; a trace is accepted when some
    behaviour of the machine consumes every event and ends with the same Return event."""
    batch, owners = [], []
    for r in runs:
        res = r["res"]
        if res["kind"] == "error":
            continue                      # judged as a violation; there is no Return event to replay
        batch.append({"gid": r["gid"], "cfg": r["cfg"], "visits": res["visits"],
                      "res": {"kind": res["kind"], "path": list(res["path"]), "acts": list(res["acts"]),
                              "value": res["value"], "visited": list(res["visited"])}})
        owners.append(r)
    rejected = []
    if not batch:
        return rejected
    gl = [dict(graph_for_tlc(g), cfgs=[]) for g in graphs]
    out = run_tlc(ctx.workdir / tag, MODULE, CFG_TRACE, files={"batch.json": {"graphs": gl, "runs": batch}},
                  env={"BATCH_FILE": "batch.json", "MODE": "trace"})
    ctx.add_tlc(out, "trace: visit events recorded from the real planners replayed on the reference machines")
    bad = [v for v in out.violated if v in DESIGN_INVS]
    if bad:
        raise TLCFailure(f"design-level invariant violated while replaying real traces: {sorted(set(bad))}\n"
                         + (out.traces[0][:3000] if out.traces else ""))
    acc = {r["tid"] for r in out.records if r["kind"] == "trace" and r["accepted"]}
    far = {}
    for r in out.records:
        if r["kind"] == "trace":
            far[r["tid"]] = max(far.get(r["tid"], 0), r["consumed"])
    for k, r in enumerate(owners, start=1):
        if k in acc:
            ctx.count("traces_accepted")
            ctx.count("trace_events_accepted", len(r["res"]["visits"]) + 1)
        else:
            ctx.count("traces_not_explained")
            rejected.append(r)
            ctx.drift("trace-not-explained-by-machine",
                      {"graph": digest(graph_for_tlc(graphs[r["gid"] - 1])), "cfg": r["cfg"], "seed": r["seed"],
                       "visits": r["res"]["visits"], "events_consumed_by_a_finished_behaviour": far.get(k),
                       "return": [r["res"]["kind"], r["res"]["path"], r["res"]["visited"]]})
    return rejected


def plan_runs(rng, graphs, tier):
    """(graph index, cfg index, rep, seed, build_seed) for every real execution."""
    seeds_per_cfg = 2 if tier == "quick" else 3
    plan = []
    for i, g in enumerate(graphs, start=1):
        for c, cfg in enumerate(g["cfgs"], start=1):
            randomized = cfg["rnd"] == 1 or (cfg["alg"] == "astar" and cfg["tie"] == "random")
            seeds = [None]
            if randomized:
                seeds = [0] + [rng.randrange(1, 2 ** 31) for _ in range(seeds_per_cfg - 1)]
            for sd in seeds:
                plan.append((i, c, rand_rep(rng), sd, rng.randrange(2 ** 30)))
    # interleaved conversions: two different plain MDPs are converted with from_mdp first, then both
    # wrappers are searched, in both orders
    n_pairs = 2 if tier == "quick" else 3
    for i in range(1, len(graphs)):
        for _ in range(n_pairs):
            legs = []
            for gi in (i, i + 1):
                g = graphs[gi - 1]
                c = rng.randrange(len(g["cfgs"])) + 1
                cfg = g["cfgs"][c - 1]
                randomized = cfg["rnd"] == 1 or (cfg["alg"] == "astar" and cfg["tie"] == "random")
                rp = rand_rep(rng)
                while rp["container"] not in ("class", "quick"):
                    rp = rand_rep(rng)
                legs.append((gi, c, rp, rng.randrange(2 ** 31) if randomized else None, rng.randrange(2 ** 30)))
            if rng.random() < 0.5:         # same label kinds: the two problems share (part of) their state labels
                legs[1] = (legs[1][0], legs[1][1], dict(legs[1][2], labels=legs[0][2]["labels"], alabels=legs[0][2]["alabels"]),
                           legs[1][3], legs[1][4])
            for order in ("ab", "ba"):
                plan.append(("pair", legs[0], legs[1], order))
    # the same MDP object is planned on, gets another initial state in place, and is planned on again
    for i, g in enumerate(graphs, start=1):
        if g["N"] < 2:
            continue
        for _ in range(2):
            c = rng.randrange(len(g["cfgs"])) + 1
            cfg = g["cfgs"][c - 1]
            randomized = cfg["rnd"] == 1 or (cfg["alg"] == "astar" and cfg["tie"] == "random")
            rp = rand_rep(rng)
            while rp["container"] == "quick_next_state":       # its initial state is fixed at construction
                rp = rand_rep(rng)
            ns = rng.choice([s for s in range(1, g["N"] + 1) if s != g["start"]])
            plan.append(("restart", (i, c, rp, rng.randrange(2 ** 31) if randomized else None, rng.randrange(2 ** 30)), ns))
    # planner re-use: the same planner object plans graph A, then graph `then` over the same label set
    for i, g in enumerate(graphs, start=1):
        j = g.get("then", 0)
        if not j:
            continue
        for c, cfg in enumerate(g["cfgs"], start=1):
            randomized = cfg["rnd"] == 1 or (cfg["alg"] == "astar" and cfg["tie"] == "random")
            sd = rng.randrange(2 ** 31) if randomized else None
            ra = rand_rep(rng)
            rb = dict(rand_rep(rng), labels=ra["labels"], alabels=ra["alabels"])
            plan.append(("reuse", (i, c, ra, sd, rng.randrange(2 ** 30)), (j, c, rb, sd, rng.randrange(2 ** 30))))
    return plan


def link_reuse(rng, graphs, share=0.2):
    """Marks about `share` of the batch: g["then"] = index (in this batch) of the problem the same planner
    object plans next.  Both problems have the same configuration menu."""
    for g in graphs:
        g["then"] = 0
    idx = list(range(1, len(graphs) + 1))
    for i in idx:
        if rng.random() < share:
            cand = [j for j in idx if j != i and graphs[j - 1]["cfgs"] == graphs[i - 1]["cfgs"]]
            if cand:
                graphs[i - 1]["then"] = rng.choice(cand)


# "many revisions of queued states": 30-40 states, 6 actions everywhere, costs 0..40, zero heuristic, so that
# the queue is long and states are re-reached at lower cost while queued.  Too big for the machines: these
# runs are decided by the spec's clauses against its relaxation oracle (mode "judge") only.
BIG_CFGS = ([dict(alg="astar", tie=tie, rnd=rnd, hk="zero") for tie in ("lifo", "fifo", "random") for rnd in (0, 1)]
            + [dict(alg="bfs", tie="fifo", rnd=1, hk="zero")])


def revision_graph(rng):
    n = rng.randint(30, 40)
    K = 6
    g = dict(N=n, K=K, cbase=0, cbig="1", hc=[0] * n, cfgs=[], then=0)
    g["avail"] = [[1] * K for _ in range(n)]
    g["nxt"] = [[rng.randrange(n) + 1 for _ in range(K)] for _ in range(n)]
    g["cost"] = [[0 if rng.random() < 0.05 else rng.randint(1, 40) for _ in range(K)] for _ in range(n)]
    g["goal"] = [0] * n
    g["start"] = 1
    for _ in range(rng.choice([1, 1, 2])):
        g["goal"][rng.randrange(1, n)] = 1
    return g


def stretch_graph(rng):
    """A small abstract graph some of whose edges are corridors of more than 1000 real edges (field len):
    every solution path is longer than the interpreter's default recursion limit."""
    while True:
        g = rand_graph(rng, rng.choice([3, 4, 5]), 2)
        g["cbase"], g["cbig"] = 0, "1"
        g["cost"] = [[rng.choice([0, 1, 1, 2]) for _ in range(2)] for _ in range(g["N"])]
        s0 = g["start"] - 1
        o = py_oracle(g)
        if g["goal"][s0] or o["togo"][s0] >= INF:
            continue
        g["len"] = [[1, 1] for _ in range(g["N"])]
        for a in range(2):
            g["len"][s0][a] = rng.randint(1050, 1150)
        g["hc"], g["cfgs"], g["then"] = [0] * g["N"], [], 0
        return g


def expand_corridors(g):
    """The real graph behind a graph with corridor edges, and the map real state -> (abstract state | None)."""
    N, K = g["N"], g["K"]
    avail = [list(r) for r in g["avail"]]
    nxt = [list(r) for r in g["nxt"]]
    cost = [list(r) for r in g["cost"]]
    goal = list(g["goal"])
    chain = {}
    for s in range(N):
        for a in range(K):
            m = g["len"][s][a]
            if not g["avail"][s][a] or m == 1:
                continue
            ids = []
            target = g["nxt"][s][a]
            for k in range(m - 1):
                ids.append(len(avail) + 1)
                avail.append([1] + [0] * (K - 1))
                nxt.append([0] + [1] * (K - 1))
                cost.append([g["cost"][s][a]] + [0] * (K - 1))
                goal.append(0)
            for k, rid in enumerate(ids):
                nxt[rid - 1][0] = ids[k + 1] if k + 1 < len(ids) else target
            nxt[s][a] = ids[0]
            chain[(s + 1, a + 1)] = ids
    gx = dict(N=len(avail), K=K, avail=avail, nxt=nxt, cost=cost, goal=goal, start=g["start"], cbase=0, cbig="1",
              hc=[0] * len(avail), cfgs=[], then=0)
    return gx, chain


def collapse(g, chain, real):
    """Real result on the expanded graph -> result on the abstract graph: a corridor must be walked from its
    first to its last state with its single action; anything else gives the invalid action 0."""
    if real["kind"] != "path" or not real["path"]:
        return real
    path, acts = real["path"], real["acts"]
    apath, aacts = [path[0]], []
    i = 0
    while i < len(path) - 1:
        s, a = path[i], acts[i] if i < len(acts) else 0
        ids = chain.get((s, a)) if s <= g["N"] else None
        if s > g["N"]:                     # a path that starts or continues inside a corridor out of turn
            aacts.append(0)
            apath.append(path[i + 1] if path[i + 1] <= g["N"] else 0)
            i += 1
        elif ids is None:
            aacts.append(a)
            apath.append(path[i + 1] if path[i + 1] <= g["N"] else 0)
            i += 1
        else:
            seg = path[i + 1:i + 1 + len(ids)]
            sega = acts[i + 1:i + 1 + len(ids)]
            ok = seg == ids and all(x == 1 for x in sega) and i + 1 + len(ids) < len(path)
            aacts.append(a if ok else 0)
            j = i + 1 + len(ids) if ok else i + 1
            apath.append(path[j] if j < len(path) and path[j] <= g["N"] else 0)
            i = j
    return dict(real, path=apath, acts=aacts, visited=[v for v in real["visited"] if v <= g["N"]], visits=[])


LONG_CFGS = [dict(alg="astar", tie="lifo", rnd=0, hk="zero"), dict(alg="astar", tie="fifo", rnd=1, hk="zero"),
             dict(alg="astar", tie="random", rnd=0, hk="zero"), dict(alg="bfs", tie="fifo", rnd=0, hk="zero"),
             dict(alg="bfs", tie="fifo", rnd=1, hk="zero")]


def plan_long(rng, n_graphs=3):
    jobs = []
    for _ in range(n_graphs):
        g = stretch_graph(rng)
        for cfg in LONG_CFGS:
            randomized = cfg["rnd"] == 1 or (cfg["alg"] == "astar" and cfg["tie"] == "random")
            jobs.append((g, cfg, rand_rep(rng), rng.randrange(2 ** 31) if randomized else None, rng.randrange(2 ** 30)))
    return jobs


def plan_big(rng, n_graphs, runs_per_cfg):
    jobs = []
    for _ in range(n_graphs):
        g = revision_graph(rng)
        for cfg in BIG_CFGS:
            for _ in range(runs_per_cfg if (cfg["rnd"] or cfg["tie"] == "random") else 1):
                randomized = cfg["rnd"] == 1 or (cfg["alg"] == "astar" and cfg["tie"] == "random")
                jobs.append((g, cfg, rand_rep(rng), rng.randrange(2 ** 31) if randomized else None, rng.randrange(2 ** 30)))
    return jobs


def judge_cases(ctx, graphs, plan, *, tamper=None, quiet_counts=False, trace_every=0, big=()):
    orc, outcomes = mc(ctx, graphs)
    runs = []
    nested = []          # nested searches run inside heuristic_value: judged like stand-alone runs
    extra = []           # runs on problems that are judged by the spec's clauses only
    pending = []         # results whose policy is read later, after other searches have run
    reruns = []
    for job in plan:
        if NONTERM["n"] >= NONTERM_STOP:
            ctx.skip("not run: non-termination already reported %d times" % NONTERM_STOP)
            continue
        if job[0] == "reuse":
            _, la, lb = job
            shared = {}
            first = None
            legs_done = []
            for pos, (i, c, rep, sd, bs) in enumerate((la, lb)):
                g = graphs[i - 1]
                cfg = g["cfgs"][c - 1]
                h2 = list(orc[i]["hz"][cfg["hk"]])
                p = Prepared(g, cfg, h2, rep, sd, bs, shared=shared)
                real = p.execute(defer_policy=True)      # policies are read after both searches (below)
                legs_done.append(p)
                ctx.evaluations += 1
                run = {"gid": i, "cid": c, "alg": cfg["alg"], "cfg": cfg, "rep": rep, "seed": sd, "build_seed": bs,
                       "h2": h2, "res": real}
                if pos == 1:
                    ctx.count("runs_on_a_reused_planner_object")
                    run["prev"] = la[0]
                    run["scenario"] = {"kind": "reuse", "first": first}
                else:
                    first = {"graph": gcore(g), "cfg": cfg, "rep": rep, "seed": sd, "build_seed": bs}
                runs.append(run)
                for nr in p.nested:
                    nested.append(dict(nr, outer=len(runs) - 1))
            for p in legs_done:
                p.complete()
            continue
        if job[0] == "restart":
            _, (i, c, rep, sd, bs), new_start = job
            g = graphs[i - 1]
            cfg = g["cfgs"][c - 1]
            h2 = list(orc[i]["hz"][cfg["hk"]])
            p = Prepared(g, cfg, h2, rep, sd, bs)
            real = p.execute()
            ctx.evaluations += 1
            runs.append({"gid": i, "cid": c, "alg": cfg["alg"], "cfg": cfg, "rep": rep, "seed": sd, "build_seed": bs,
                         "h2": h2, "res": real})
            for nr in p.nested:
                nested.append(dict(nr, outer=len(runs) - 1))
            # the same MDP object, initial state changed in place, planned on again: judged as the problem
            # with the new initial state (spec clauses + oracle; not explored by the machines)
            real2 = p.restart(new_start)
            ctx.evaluations += 1
            extra.append({"graph": dict(gcore(g), start=new_start, cfgs=[], then=0), "cfg": cfg, "rep": rep, "seed": sd,
                          "build_seed": bs, "res": real2, "family": "restart", "orig_start": g["start"], "new_start": new_start})
            continue
        if job[0] == "pair":
            _, la, lb, order = job
            preps = []
            for (i, c, rep, sd, bs) in (la, lb):
                g = graphs[i - 1]
                cfg = g["cfgs"][c - 1]
                h2 = list(orc[i]["hz"][cfg["hk"]])
                preps.append((Prepared(g, cfg, h2, rep, sd, bs, preconvert=True), i, c, cfg, rep, sd, bs, h2))
            seq = preps if order == "ab" else preps[::-1]
            for pos, (p, i, c, cfg, rep, sd, bs, h2) in enumerate(seq):
                real = p.execute(defer_policy=True)
                ctx.evaluations += 1
                ctx.count("runs_after_interleaved_conversions")
                other = seq[1 - pos]
                scen = {"kind": "pair", "order": order, "this_leg": "a" if p is preps[0][0] else "b",
                        "partner": {"graph": gcore(graphs[other[1] - 1]),
                                    "cfg": other[3], "rep": other[4], "seed": other[5], "build_seed": other[6]}}
                runs.append({"gid": i, "cid": c, "alg": cfg["alg"], "cfg": cfg, "rep": rep, "seed": sd, "build_seed": bs,
                             "h2": h2, "res": real, "scenario": scen})
                for nr in p.nested:
                    nested.append(dict(nr, outer=len(runs) - 1))
            for q in preps:
                q[0].complete()
            continue
        (i, c, rep, sd, bs) = job
        g = graphs[i - 1]
        cfg = g["cfgs"][c - 1]
        h2 = list(orc[i]["hz"][cfg["hk"]])
        p = Prepared(g, cfg, h2, rep, sd, bs)
        real = p.execute(defer_policy=True)     # the returned policy is read a few searches later
        pending.append(p)
        ctx.evaluations += 1
        runs.append({"gid": i, "cid": c, "alg": cfg["alg"], "cfg": cfg, "rep": rep, "seed": sd, "build_seed": bs,
                     "h2": h2, "res": real})
        for nr in p.nested:
            nested.append(dict(nr, outer=len(runs) - 1))
        if len(pending) >= 6:
            for q in pending:
                q.complete()
            pending = []
        if len(runs) % 40 == 0 and real["kind"] == "path":
            # DRIFT level only (the statement is about what plan_on returns, not about a result object the
            # caller has edited): the policy should not depend on the caller emptying the returned path list
            q = Prepared(g, cfg, h2, rep, sd, bs)
            q.execute(defer_policy=True)
            ctx.evaluations += 1
            ctx.count("probe_policy_after_caller_cleared_the_returned_path")
            if q.res is not None:
                try:
                    labels = list(q.res.path)
                    q.res.path.clear()
                    for s in labels[:-1]:
                        q.res.policy.action_dist(s)
                except Exception as e:                           # noqa: BLE001
                    ctx.drift("policy-depends-on-the-returned-path-list-staying-untouched",
                              {"graph": digest(graph_for_tlc(g)), "cfg": cfg, "error": f"{type(e).__name__}: {e}"[:120]})
        if sd is not None and len(runs) % 7 == 0 and real["kind"] != "error":
            # DRIFT-level only (reproducibility is C13's clause): the same seed gives the same outcome
            # whatever the global generator holds
            random.seed(len(runs))
            again = run_real(g, cfg, h2, rep, sd, bs)
            ctx.evaluations += 1
            ctx.count("same_seed_reruns")
            reruns.append((again, real, g, cfg, sd))
        if real["kind"] == "error" and "from_mdp" in real.get("site", ""):
            # the conversion rejected the representation (judged below); the search itself is still
            # exercised on this case through an equivalent DeterministicDistribution representation
            rep2 = dict(rep, init="det", trans="det")
            real2 = run_real(g, cfg, h2, rep2, sd, bs)
            ctx.evaluations += 1
            ctx.count("reruns_with_DeterministicDistribution_after_conversion_error")
            runs.append({"gid": i, "cid": c, "alg": cfg["alg"], "cfg": cfg, "rep": rep2, "seed": sd, "build_seed": bs,
                         "h2": h2, "res": real2})
    for q in pending:
        q.complete()
    for again, real, g, cfg, sd in reruns:
        if outcome_key(again) != outcome_key(real):
            ctx.drift("same-seed-different-outcome", {"graph": digest(graph_for_tlc(g)), "cfg": cfg, "seed": sd,
                                                      "first": [real["kind"], real["path"], real["visited"]],
                                                      "second": [again["kind"], again["path"], again["visited"]]})
    if tamper is not None:
        tamper(runs)
    # nested searches: their (relaxed) graphs are appended to the judged batch
    jgraphs, where = list(graphs), {}
    nruns = []
    for nr in nested:
        key = digest(graph_for_tlc(nr["derived"]))
        if key not in where:
            jgraphs.append(nr["derived"])
            where[key] = len(jgraphs)
        nruns.append({"gid": where[key], "alg": nr["alg"], "res": nr["res"], "outer": nr["outer"], "rep": nr["rep"]})
    ctx.evaluations += len(nruns)
    if nruns and not quiet_counts:
        ctx.count("nested_searches_inside_heuristic_value", len(nruns))
    # the "many revisions" family: run here, judged by the spec's clauses only (too big for the machines)
    bruns = []
    for (bg, cfg, brep, sd, bs) in big:
        if NONTERM["n"] >= NONTERM_STOP:
            ctx.skip("not run: non-termination already reported %d times" % NONTERM_STOP)
            continue
        key = digest(graph_for_tlc(bg))
        if key not in where:
            jgraphs.append(bg)
            where[key] = len(jgraphs)
        if bg.get("len"):                # corridor edges: the real run is on the expanded graph
            gx, chain = expand_corridors(bg)
            real = collapse(bg, chain, run_real(gx, cfg, [0] * gx["N"], brep, sd, bs))
        else:
            real = run_real(bg, cfg, [0] * bg["N"], brep, sd, bs)
        ctx.evaluations += 1
        bruns.append({"gid": where[key], "alg": cfg["alg"], "res": real, "cfg": cfg, "rep": brep, "seed": sd,
                      "build_seed": bs, "graph": bg, "family": "long" if bg.get("len") else "big"})
    if bruns and not quiet_counts:
        ctx.count("runs_on_the_many_revisions_family(30-40 states)", len(bruns))
    for x in extra:
        key = digest(graph_for_tlc(x["graph"]))
        if key not in where:
            jgraphs.append(x["graph"])
            where[key] = len(jgraphs)
        bruns.append(dict(x, gid=where[key], alg=x["cfg"]["alg"]))
    if extra and not quiet_counts:
        ctx.count("runs_after_the_initial_state_was_changed_in_place", len(extra))
    all_verdicts = judge(ctx, jgraphs, runs + nruns + bruns)
    verdicts = all_verdicts[:len(runs)]
    if trace_every:
        validate_traces(ctx, graphs, [r for k, r in enumerate(runs) if k % trace_every == 0])
    n_viol = 0
    for r, (fails, shape) in zip(runs, verdicts):
        i, c = r["gid"], r["cid"]
        g, cfg, real = graphs[i - 1], r["cfg"], r["res"]
        exp = outcomes[(i, c, r.get("prev", 0))]
        predicted_error = any(o["phase"] == "error" for o in exp)
        explained = False
        if real["kind"] == "error":
            explained = predicted_error
        else:
            explained = any(o["phase"] == "done" and outcome_key(o["res"]) == outcome_key(real) for o in exp)
        planner = "AStarSearch" if cfg["alg"] == "astar" else "BreadthFirstSearch"
        case = {"graph": gcore(g),
                "cfg": cfg, "rep": r["rep"], "seed": r["seed"], "build_seed": r["build_seed"], "h2": r["h2"],
                "real": {k: v for k, v in real.items() if k != "visits"}}
        if "scenario" in r:
            case["scenario"] = r["scenario"]
        for clause in fails:
            n_viol += 1
            if clause == "returns":
                site = real.get("site", planner + ".plan_on")
                cl = "raises-" + real.get("exc", "error")
                if site.endswith("from_mdp.initial_state"):
                    shp = "initial-distribution=" + r["rep"]["init"]
                elif site.endswith("from_mdp.next_state"):
                    shp = "transition-distribution=" + r["rep"]["trans"]
                else:
                    shp = shape
                what = f"{planner} ({cfg['tie']}, rnd={cfg['rnd']}, h={cfg['hk']}) raised {real['note']}"
            else:
                site, cl, shp = planner, clause, shape
                what = (f"{planner} ({cfg['tie']}, rnd={cfg['rnd']}, h={cfg['hk']}) clause '{clause}' fails: "
                        f"kind={real['kind']} path={real['path']} acts={real['acts']} value={real.get('raw_value', real['value'])} "
                        f"{real.get('note', '')}")
            ctx.violation(f"C05:{site}:{cl}:{shp}", what, case)
        if not fails:
            if explained:
                ctx.validated += 1
            else:
                ctx.drift("outcome-not-among-machine-outcomes",
                          {"graph": digest(case["graph"]), "cfg": cfg, "seed": r["seed"],
                           "real": [real["kind"], real["path"], real["acts"], real["value"], real["visited"]],
                           "machine": [[o["phase"], o["res"]["path"], o["res"].get("visited")] for o in exp][:4]})
        if not quiet_counts:
            o = orc[i]
            ctx.count(f"runs_{cfg['alg']}")
            ctx.count(f"shape_{o['shape']}")
            ctx.count(f"rep_container_{r['rep']['container']}")
            ctx.count(f"rep_initial_{r['rep']['init']}")
            ctx.count(f"rep_transition_{r['rep']['trans']}")
            ctx.count(f"rep_labels_{r['rep']['labels']}")
            if len(exp) > 1:
                ctx.count("runs_on_configurations_with_several_machine_outcomes")
            if (cfg["alg"] == "astar" and o["subcost"]) or (cfg["alg"] == "bfs" and o["subhops"]):
                ctx.nontrivial(digest([case["graph"], cfg]))
            if real["kind"] == "path" and len(real["path"]) >= 3:
                ctx.sample({"graph": case["graph"], "cfg": cfg, "rep": r["rep"], "seed": r["seed"],
                            "heuristic_half_units": r["h2"], "real": [real["path"], real["acts"], real["value"]],
                            "togo": o["togo"], "hops": o["hops"]})
    for nr, (fails, shape) in zip(nruns, all_verdicts[len(runs):]):
        r = runs[nr["outer"]]
        g = graphs[r["gid"] - 1]
        planner = "AStarSearch" if nr["alg"] == "astar" else "BreadthFirstSearch"
        case = {"graph": gcore(g),
                "cfg": r["cfg"], "rep": r["rep"], "seed": r["seed"], "build_seed": r["build_seed"], "h2": r["h2"],
                "nested": {"relaxed_start": nr["res"] and jgraphs[nr["gid"] - 1]["start"], "rep": nr["rep"],
                           "real": {k: v for k, v in nr["res"].items() if k != "visits"}}}
        if "scenario" in r:
            case["scenario"] = r["scenario"]
        for clause in fails:
            real = nr["res"]
            if clause == "returns":
                site, cl = real.get("site", planner + ".plan_on"), "raises-" + real.get("exc", "error")
            else:
                site, cl = planner, clause
            ctx.violation(f"C05:{site}:{cl}:{shape}",
                          f"nested {planner} (called inside heuristic_value on the relaxed copy, start {jgraphs[nr['gid'] - 1]['start']}) "
                          f"clause '{clause}': kind={real['kind']} path={real['path']} acts={real['acts']} "
                          f"value={real.get('raw_value', real['value'])} {real.get('note', '')}", case)
        if not fails:
            ctx.validated += 1
    for br, (fails, shape) in zip(bruns, all_verdicts[len(runs) + len(nruns):]):
        real, cfg = br["res"], br["cfg"]
        planner = "AStarSearch" if cfg["alg"] == "astar" else "BreadthFirstSearch"
        case = {"family": br["family"], "graph": gcore(br["graph"]), "cfg": cfg, "rep": br["rep"], "seed": br["seed"],
                "build_seed": br["build_seed"], "real": {k: v for k, v in real.items() if k != "visits"}}
        if br["family"] == "restart":
            case["graph"]["start"] = br["orig_start"]
            case["new_start"] = br["new_start"]
            fam = "initial-state-changed-in-place-then-planned-again"
        elif br["family"] == "long":
            fam = "solution-path-longer-than-1000-states"
        else:
            fam = "many-revisions-30-40-states"
        for clause in fails:
            if clause == "returns":
                site, cl = real.get("site", planner + ".plan_on"), "raises-" + real.get("exc", "error")
            else:
                site, cl = planner, clause
            ctx.violation(f"C05:{site}:{cl}:{fam}",
                          f"{planner} ({cfg['tie']}, rnd={cfg['rnd']}, h={cfg['hk']}) on a {br['graph']['N']}-state graph [{fam}], clause '{clause}': "
                          f"kind={real['kind']} path={real['path']} value={real.get('raw_value', real['value'])} {real.get('note', '')}", case)
        if not fails:
            ctx.validated += 1
            if not quiet_counts:
                ctx.nontrivial(digest([case["graph"], cfg]))
    n_err = sum(1 for olist in outcomes.values() for o in olist if o["phase"] == "error")
    if n_err:
        raise TLCFailure(f"the reference machine reached an assertion failure in {n_err} outcomes")
    return runs, verdicts


def zero_entry_probe(ctx, graphs, rng):
    """Informational (outside the quantifier, never a verdict): a single-outcome DictDistribution that
    also lists a zero-probability entry."""
    from msdm.core.distributions import DictDistribution
    from msdm.core.mdp import QuickMDP
    from msdm.algorithms.search import BreadthFirstSearch
    for g in graphs[:20]:
        N = g["N"]
        if N < 2:
            continue
        mdp = QuickMDP(next_state_dist=lambda s, a: DictDistribution({g["nxt"][s][a] - 1: 1.0, (g["nxt"][s][a]) % N: 0.0}),
                       initial_state_dist=lambda: DictDistribution({g["start"] - 1: 1.0}),
                       reward=lambda s, a, ns: -g["cost"][s][a],
                       actions=lambda s: tuple(a for a in range(g["K"]) if g["avail"][s][a]),
                       is_absorbing=lambda s: bool(g["goal"][s]))
        try:
            BreadthFirstSearch().plan_on(mdp)
            ctx.count("probe_dict_with_zero_probability_entry_accepted")
        except Exception as e:                               # noqa: BLE001
            ctx.count(f"probe_dict_with_zero_probability_entry_rejected_{type(e).__name__}")


# --------------------------------------------------------------------------------------------
SIZES_QUICK = [(2, 2), (3, 2), (3, 3), (4, 2), (4, 2), (4, 3), (5, 2), (5, 2), (5, 3), (6, 2), (6, 3), (3, 1)]
SIZES_THOROUGH = SIZES_QUICK + [(6, 3), (7, 2), (7, 3), (8, 2), (8, 3)]


def run(ctx):
    import msdm.algorithms.search  # noqa: F401  (import cost up front)
    rng = random.Random(ctx.seed * 7919 + 5)
    ctx.rule = ("random deterministic shortest-path problems (2-6 nodes quick / 2-8 thorough, 1-3 actions with "
                "state-dependent availability, costs from menus incl. 0, 0-N absorbing states with ghost out-edges, "
                "self-loops, dead ends; ~14% with huge integer costs (multiples of 2^53 .. 10^30 plus small residues, embedded "
                "order-isomorphically into the spec's integers)) x {A* x {lifo,fifo,random} x randomize_action_order x {zero,exact,exact/2,"
                "random consistent} heuristic, BFS x randomize_action_order} x seeds x representation; non-trivial = "
                "a goal is reachable and a strictly worse (cost for A*, steps for BFS) way of reaching a goal exists "
                "(oracle predicates subcost/subhops), keyed by (graph, configuration)")
    ctx.assumptions = [
        "TLC evaluates the TLA+ oracle correctly (cross-checked against an independent Python implementation on every graph)",
        "costs are integers, so path_value is compared exactly: small ones are exact in binary floating point, huge ones (beyond 2**53) "
        "are given as Python integers with integer rewards and integer heuristic values, for which exact arithmetic is available",
        "a heuristic that is +inf cost-to-go (-inf value) at states that cannot reach a goal counts as consistent (it is the exact one)",
        "non-termination is declared after 3 s of process CPU time or 2000*(N*K+2) calls into the MDP on graphs of <= 8 nodes",
    ]
    n = 420 if ctx.tier == "quick" else 4500
    chunk = 420 if ctx.tier == "quick" else 1000
    sizes = SIZES_QUICK if ctx.tier == "quick" else SIZES_THOROUGH
    graphs = make_graphs(rng, n, sizes)
    for k in range(0, len(graphs), chunk):
        part = graphs[k:k + chunk]
        link_reuse(rng, part)
        plan = plan_runs(rng, part, ctx.tier)
        bigjobs = plan_big(rng, 200 if ctx.tier == "quick" else 500, 8) + plan_long(rng)
        judge_cases(ctx, part, plan, trace_every=3 if ctx.tier == "quick" else 8, big=bigjobs)
    zero_entry_probe(ctx, graphs, rng)


def worse_valid_path(g, alg):
    """A real start->goal path (1-based states, actions, cost) that is strictly worse than the optimum."""
    o = py_oracle(g)
    s0 = g["start"] - 1
    best = o["togo"][s0] if alg == "astar" else o["hops"][s0]
    found = []

    def dfs(s, path, acts, cost):
        if found:
            return
        if g["goal"][s]:
            if (cost if alg == "astar" else len(acts)) > best:
                found.append(([x + 1 for x in path], [x + 1 for x in acts], cost))
            return
        for a in range(g["K"]):
            if g["avail"][s][a]:
                t = g["nxt"][s][a] - 1
                if t not in path:
                    dfs(t, path + [t], acts + [a], cost + g["cost"][s][a])
    dfs(s0, [s0], [], 0)
    return found[0] if found else None


def replay(ctx, case):
    g = dict(case["graph"])
    g["cfgs"] = [case["cfg"]]
    leg = (1, 1, case["rep"], case["seed"], case["build_seed"])
    sc = case.get("scenario")
    if case.get("family") == "long":
        bg = dict(case["graph"], cfgs=[], then=0)
        judge_cases(ctx, [], [], big=[(bg, case["cfg"], case["rep"], case["seed"], case["build_seed"])])
    elif case.get("family") == "restart":
        judge_cases(ctx, [g], [("restart", leg, case["new_start"])], trace_every=1)
    elif case.get("family") == "big":
        bg = dict(case["graph"], cfgs=[], then=0)
        judge_cases(ctx, [], [], big=[(bg, case["cfg"], case["rep"], case["seed"], case["build_seed"])])
    elif sc and sc["kind"] == "reuse":
        f = sc["first"]
        ga = dict(f["graph"], cfgs=[f["cfg"]], then=2)
        judge_cases(ctx, [ga, g], [("reuse", (1, 1, f["rep"], f["seed"], f["build_seed"]), (2,) + leg[1:])], trace_every=1)
    elif sc and sc["kind"] == "pair":
        pt = sc["partner"]
        g2 = dict(pt["graph"])
        g2["cfgs"] = [pt["cfg"]]
        leg2 = (2, 1, pt["rep"], pt["seed"], pt["build_seed"])
        a, b = (leg, leg2) if sc["this_leg"] == "a" else (leg2, leg)
        judge_cases(ctx, [g, g2], [("pair", a, b, sc["order"])], trace_every=1)
    else:
        judge_cases(ctx, [g], [leg], trace_every=1)


def selftest(ctx):
    """Binding demonstration: corrupt results returned by the real code (value, action, dropped Return
    event, path state) and one instance handed to msdm; each must be reported."""
    rng = random.Random(11)
    graphs = make_graphs(rng, 50, SIZES_QUICK)
    plan = []
    for i, g in enumerate(graphs, start=1):
        for c, cfg in enumerate(g["cfgs"], start=1):
            if cfg["rnd"] == 0 and cfg["tie"] in ("lifo", "fifo") and cfg["hk"] in ("zero", "exact"):
                plan.append((i, c, rand_rep(rng, plain=True), None, rng.randrange(2 ** 30)))
    marks, expect = {}, {}

    def tamper(runs):
        good = [r for r in runs if r["res"]["kind"] == "path" and len(r["res"]["path"]) >= 3]
        a = next(r for r in good if r["alg"] == "astar")
        a["res"] = dict(a["res"], value=a["res"]["value"] + 1)
        marks["value"] = id(a)
        b = next(r for r in good if r["alg"] == "astar" and id(r) != id(a) and r["gid"] != a["gid"])
        acts = list(b["res"]["acts"])
        acts[0] = acts[0] % graphs[b["gid"] - 1]["K"] + 1 if graphs[b["gid"] - 1]["K"] > 1 else 0
        b["res"] = dict(b["res"], acts=acts)
        marks["action"] = id(b)
        c = next(r for r in good if r["alg"] == "bfs" and r["gid"] not in (a["gid"], b["gid"]))
        c["res"] = dict(c["res"], kind="none", path=[], acts=[])
        marks["dropped-return"] = id(c)
        used = {a["gid"], b["gid"], c["gid"]}
        # a valid but longer (BFS) / costlier (A*) path in place of the returned one
        for alg, mark in (("bfs", "valid-but-more-steps"), ("astar", "valid-but-costlier")):
            for r in good:
                if r["alg"] != alg or r["gid"] in used:
                    continue
                alt = worse_valid_path(graphs[r["gid"] - 1], alg)
                if alt is not None:
                    r["res"] = dict(r["res"], path=alt[0], acts=alt[1], value=alt[2] if alg == "astar" else -1)
                    marks[mark] = id(r)
                    expect[mark] = "minimum-steps" if alg == "bfs" else "minimum-cost"
                    used.add(r["gid"])
                    break

    runs, verdicts = judge_cases(ctx, graphs, plan, tamper=tamper, quiet_counts=True)
    hit = {k: False for k in marks}
    for r, (fails, _) in zip(runs, verdicts):
        for k, v in marks.items():
            if id(r) == v and fails and (k not in expect or fails == [expect[k]]):
                hit[k] = True
    clean_flagged = sum(1 for r, (fails, _) in zip(runs, verdicts) if fails and id(r) not in marks.values())
    print(f"  (selftest) tampered results detected: {hit}; untampered runs flagged: {clean_flagged}")
    # (2) an instance field handed to msdm differs from the one the spec judges: the cheapest edge out of
    #     the start on an optimal path becomes expensive for msdm only
    g2 = None
    for g in graphs:
        o = py_oracle(g)
        s0 = g["start"] - 1
        if o["togo"][s0] < INF and o["togo"][s0] > 0 and not g["goal"][s0]:
            alts = [a for a in range(g["K"]) if g["avail"][s0][a] and o["togo"][g["nxt"][s0][a] - 1] < INF]
            best = [a for a in alts if g["cost"][s0][a] + o["togo"][g["nxt"][s0][a] - 1] == o["togo"][s0]]
            if len(alts) >= 2 and len(best) == 1:
                g2, a_best = g, best[0]
                break
    ok2 = False
    if g2 is not None:
        lied = {k: ([list(r) for r in v] if isinstance(v, list) and v and isinstance(v[0], list) else v) for k, v in g2.items()}
        lied["cost"][g2["start"] - 1][a_best] += 50
        cfgs = [c for c in g2["cfgs"] if c["alg"] == "astar" and c["tie"] == "lifo" and c["rnd"] == 0 and c["hk"] == "zero"]
        g2 = dict(g2, cfgs=cfgs)
        orc, outcomes = mc(ctx, [g2], tag="mc2")
        real = run_real(dict(lied, cfgs=cfgs), cfgs[0], list(orc[1]["hz"]["zero"]), rand_rep(rng, plain=True), None, 7)
        v = judge(ctx, [g2], [{"gid": 1, "alg": "astar", "res": real}], tag="judge2")
        ok2 = bool(v[0][0])
        print(f"  (selftest) msdm given a graph with one edge cost changed: clauses failing = {v[0][0]}")
    # (3) pipeline B: one dropped event, one swapped action order, one foreign visited set -> exactly those
    #     three traces must be rejected by the machine
    clean = [r for r, (fails, _) in zip(runs, verdicts) if not fails and id(r) not in marks.values()
             and r["res"]["kind"] == "path"]
    sub = clean[:40]
    t1 = next(r for r in sub if len(r["res"]["visits"]) >= 2)
    t1["res"] = dict(t1["res"], visits=t1["res"]["visits"][:-1])
    t2 = next(r for r in sub if r is not t1 and any(len(v[1]) >= 2 for v in r["res"]["visits"]))
    vs = [list(v) for v in t2["res"]["visits"]]
    k = next(i for i, v in enumerate(vs) if len(v[1]) >= 2)
    vs[k] = [vs[k][0], list(reversed(vs[k][1]))]
    t2["res"] = dict(t2["res"], visits=vs)
    t3 = next(r for r in sub if r is not t1 and r is not t2 and len(r["res"]["visited"]) >= 2)
    t3["res"] = dict(t3["res"], visited=t3["res"]["visited"][:-1])
    before = len(ctx.drifts)
    rejected = validate_traces(ctx, graphs, sub, tag="trace-selftest")
    ok3 = {id(r) for r in rejected} == {id(t1), id(t2), id(t3)}
    del ctx.drifts[before:]
    print(f"  (selftest) corrupted traces rejected by the machine: {len(rejected)} of {len(sub)} (expected exactly the 3 corrupted): {ok3}")
    return len(hit) == 5 and all(hit.values()) and clean_flagged == 0 and ok2 and ok3
