"""C17 - R-MAX stays optimistic about what it has not tried often enough.

Pipelines (spec/C17_RMax.tla decides every verdict):
  MC     TLC explores every experience history of the reference machine (count-limited model,
         exact fixed point of the empirical optimistic model at every new known pair) on tiny
         MDPs; invariants: bookkeeping, optimism, exact empirical Bellman equation, monotone Q,
         and "the integer judge of the trace mode accepts the exact machine" (no false alarms).
  B      every case = (instance, representation, threshold, episodes, seed, tolerance): the real
         RMAX.train_on runs with a recording RMAXEventListener (end_of_timestep(locals()) gives
         s, a, r, ns and the learner with its q_matrix); the trace (steps, episode ends, returned
         q_values + policy support) is validated by TLC in MODE=trace, which rebuilds the model
         from the first thr samples of every pair and judges every clause; one verdict record per
         trace comes back.  An independent Python re-implementation (integers + Fractions) must
         reproduce every verdict and the exact fixed point, else it is a machinery failure.
"""
import math
import random
from fractions import Fraction as F

import numpy as np

from .. import gen, build
from ..build import frac
from ..core import digest
from ..tlc import run_tlc, TLCFailure

MODULE = "C17_RMax"
CFG_MC = """INIT Init
NEXT Next
CHECK_DEADLOCK FALSE
INVARIANT InstancesOK
INVARIANT Bookkeeping
INVARIANT ModelIsReal
INVARIANT NeverAboveVmax
INVARIANT UnknownExactlyVmax
INVARIANT KnownBellman
INVARIANT JudgeAcceptsMachine
INVARIANT EmitLearned
PROPERTY ModelFrozen
PROPERTY QMonotone
"""
CFG_TRACE = """INIT Init
NEXT Next
CHECK_DEADLOCK FALSE
INVARIANT InstancesOK
INVARIANT Bookkeeping
INVARIANT Emit
"""
DESIGN_INVS = ["InstancesOK", "Bookkeeping", "ModelIsReal", "NeverAboveVmax", "UnknownExactlyVmax", "KnownBellman",
               "JudgeAcceptsMachine", "ModelFrozen", "QMonotone"]

REPS = [
    dict(rep="quick", labels="int", alabels="int", explicit_list=False, dist="dict"),
    dict(rep="quick", labels="str", alabels="str", explicit_list=False, dist="dict_zeros"),
    dict(rep="subclass", labels="tuple", alabels="str", explicit_list=False, dist="det"),
    dict(rep="subclass", labels="mixed", alabels="mixed", explicit_list=False, dist="uniform"),
    dict(rep="matrices", labels="frozendict", alabels="int", explicit_list=False, dist="dict"),
    dict(rep="quick", labels="str", alabels="tuple", explicit_list=False, dist="uniform"),
    dict(rep="subclass", labels="int", alabels="int", explicit_list=False, dist="dict_zeros"),
    # distinct state labels with equal hashes (CPython: hash(-1) == hash(-2)): anything keyed by hash(s) confuses them
    dict(rep="quick", labels="negint", alabels="int", explicit_list=False, dist="dict"),
    dict(rep="subclass", labels="negtuple", alabels="str", explicit_list=False, dist="dict_zeros"),
]
DIFFS = [(1, 100000), (1, 100000), (1, 1000), (1, 100), (1, 20), (1, 10 ** 9), (1, 10 ** 9), (1, 10 ** 7)]

SITE = {
    "step-outside-the-mdp": "RMAX._training",
    "step-not-a-transition": "RMAX._training",
    "step-wrong-reward": "RMAX._training",
    "step-from-absorbing-state": "RMAX._training",
    "step-not-from-current-state": "RMAX._training",
    "episode-start-outside-initial-support": "RMAX._training",
    "exceeds-vmax": "RMAX.train_on.q_values",
    "unknown-pair-not-optimistic": "RMAX.train_on.q_values",
    "reachable-state-without-q": "RMAX.train_on.q_values",
    "listed-state-without-q": "RMAX.train_on.q_values",
    "empirical-bellman-residual": "RMAX._value_iteration",
    "policy-not-greedy": "RMAX._create_policy",
    "unknown-pair-not-exactly-optimistic": "RMAX.train_on.q_values",
    "episode-rewards-not-of-this-run": "EpisodeRewardEventListener.results",
}


# --------------------------------------------------------------------------------------------
# case generation
# --------------------------------------------------------------------------------------------
def rewards_bound(m):
    ab = [abs(m["R"][s][a][t]) for s in range(m["N"]) for a in range(m["K"]) for t in range(m["N"])]
    return max(ab + [1])


def scale_for(m, thr, rmax):
    """Largest power-of-two scale for which every product of the integer judge stays below 2^30."""
    g = F(m["GN"], m["GD"])
    B = F(max(rewards_bound(m), abs(rmax), 1)) / (1 - g)
    sc = 2 ** 6           # slow-mixing family (gamma = 999/1000, Vmax = 1000 rmax): 2^7 is what fits
    if 8 * B * sc * thr * m["GD"] > 2 ** 30:
        return None
    while sc < 2 ** 24 and 8 * B * (sc * 2) * thr * m["GD"] <= 2 ** 30:
        sc *= 2
    return sc


def oracle_feasible(m, thr, rmax):
    """Exact fixed point (policy enumeration + Cramer, <= 3 unknowns) stays inside 30-bit integers."""
    na = sum(1 for x in m["abs"] if not x)
    if na > 3:
        return False
    shifted = {"abs": m["abs"], "GD": m["GD"], "PD": thr, "K": m["K"], "N": m["N"],
               "R": [[[m["R"][s][a][t] - rmax for t in range(m["N"])] for a in range(m["K"])] for s in range(m["N"])]}
    return gen.magnitude_ok(shifted) and 40 * (m["GD"] * thr) ** na * 2048 < 2 ** 30


EPSD = 2 ** 20          # near-tie family: real reward = R - RE / EPSD (about 1e-6 below an integer)
REUSE = {"learner-reused-on-other-mdp": "other-shape", "learner-reused-on-same-mdp": "same-mdp",
         "learner-reused-on-same-shape-mdp": "same-shape", "learner-reused-on-other-discount-mdp": "other-discount"}


def make_case(rng, *, shape=None, tiny=False, neartie=False):
    """One (instance, representation, configuration)."""
    while True:
        # discounts below 1/2 too: a stopping rule scaled by (1-gamma)/gamma is looser than configured there
        GN, GD = rng.choice([(1, 2), (3, 4), (9, 10), (9, 10), (4, 5), (7, 10), (19, 20), (1, 10), (1, 4), (1, 10)])
        PD = rng.choice([2, 4]) if not neartie else 2
        n_na = rng.choice([1, 2, 2, 3, 3, 3, 4, 5]) if not tiny else rng.choice([1, 2])
        n_abs = rng.choice([1, 1, 2])
        K = rng.choice([1, 2, 2, 3]) if not neartie else rng.choice([2, 2, 3])
        # maximal rewards that are not powers of two: rmax/(1-gamma) then depends on how it is rounded
        rew = rng.choice([(-1, 0, 1, 2), (0, 1), (-2, -1, 0), (-2, -1), (0, 1, 3), (-1, 1), (0, 2, 5), (-1, 3, 7),
                          (1, 10), (0, 3, 6)])
        m = gen.rand_mdp(rng, n_na=n_na, n_abs=n_abs, K=K, PD=PD, GN=GN, GD=GD, rewards=rew, ID=rng.choice([2, 4]),
                         force_progress=True, uniform_actions=True, ghost=rng.random() < 0.5,
                         init_on_abs=0.15)
        if not neartie and shape is None and rng.random() < 0.4:
            # phantom rewards: impossible transitions (probability 0, listed explicitly by the dict_zeros
            # representations) carry a reward above every reward that can be received
            top = max(x for s_ in m["R"] for a_ in s_ for x in a_)
            for s_ in range(m["N"]):
                for a_ in range(K):
                    for t_ in range(m["N"]):
                        if m["P"][s_][a_][t_] == 0 and rng.random() < 0.3:
                            m["R"][s_][a_][t_] = top + rng.choice([1, 3, 6])
        RE = None
        if neartie:
            # action 1 duplicates action 0 with every reward lowered by 1/EPSD: once both are known their returned
            # Q-values differ by about 1e-6 (far inside msdm's isclose window) without being equal
            N = m["N"]
            top = max(x for s_ in m["R"] for a_ in s_ for x in a_)
            RE = [[[0] * N for _ in range(K)] for _ in range(N)]
            for s_ in range(N):
                if not m["abs"][s_] and rng.random() < 0.8:
                    m["P"][s_][1] = list(m["P"][s_][0])
                    m["R"][s_][1] = list(m["R"][s_][0])
                    RE[s_][1] = [1] * N
                for a_ in range(K):
                    for t_ in range(N):
                        if RE[s_][a_][t_] == 0 and m["R"][s_][a_][t_] < top and rng.random() < 0.15:
                            RE[s_][a_][t_] = 1
        if not gen.ghost_closed(m):
            continue
        unreachable = m["N"] - len(gen.reach(m))
        if shape == "state-list-with-unreachable-states" and unreachable == 0:
            continue
        rep = dict(REPS[rng.randrange(len(REPS))])
        if shape == "state-list-with-unreachable-states":
            rep["explicit_list"] = True
            rep["rep"] = rng.choice(["quick", "subclass", "matrices"])
        cfg = {"thr": rng.choice([1, 1, 2, 2, 3, 4, 5]) if not neartie else rng.choice([1, 1, 2]),
               "episodes": rng.choice([1, 2, 3, 5, 8, 13, 20]) if not neartie else rng.choice([3, 5, 8, 13, 20]),
               "seed": rng.choice([0, 1, 2, 3, 7, 11, 42, 12345, 2 ** 31 - 1]) if rng.random() < 0.5 else rng.randrange(10 ** 6),
               "diff": list(rng.choice(DIFFS)),
               "reuse": REUSE.get(shape, 0)}
        if shape == "rmax-above-maximum-reward":
            cfg["rmax_plus"] = rng.choice([1, 0.5, 9])
        if cfg["reuse"] in ("same-mdp", "same-shape", "other-discount"):
            cfg["warm_episodes"] = rng.choice([2, 5, 10, 20]) * cfg["thr"]
        if cfg["reuse"] == "other-discount":
            cfg["warm_gamma"] = list(rng.choice([g for g in [(1, 2), (3, 4), (9, 10), (1, 4)] if g != (GN, GD)]))
        case = {"m": m, "rep": rep, "cfg": cfg, "shape": shape or ("near-tie-rewards" if neartie else "")}
        if RE is not None:
            case["RE"] = RE
        return case


def make_cases(rng, n, n_special):
    cases = [make_case(rng) for _ in range(n)]
    for _ in range(n_special):
        cases.append(make_case(rng, shape="state-list-with-unreachable-states"))
        cases.append(make_case(rng, shape="learner-reused-on-other-mdp"))
        for _ in range(5):
            cases.append(make_case(rng, shape="learner-reused-on-same-mdp"))
            cases.append(make_case(rng, shape="learner-reused-on-same-shape-mdp"))
        for _ in range(3):
            cases.append(make_case(rng, shape="learner-reused-on-other-discount-mdp"))
        for _ in range(10):
            cases.append(make_case(rng, neartie=True))
    for _ in range(n_special + n_special // 2):
        # a learner configured with more than the MDP's maximal reward: it must refuse, or else still respect the
        # statement's bound (the MDP's maximal reward over one minus the discount)
        cases.append(make_case(rng, shape="rmax-above-maximum-reward"))
    for _ in range(2 * n_special):          # few: every planning call takes thousands of sweeps
        cases.append(make_slow_case(rng))
    return cases


def make_slow_case(rng):
    """Slow-mixing family: discount 99/100 or 999/1000, 1-2 non-absorbing states that loop (on themselves or among
    each other) with probability 3/4 per step and pay less than rmax there, thresholds 1-2: the empirical model of the
    known pairs is (nearly) a closed loop, so one planning call needs thousands of sweeps."""
    GN, GD = rng.choice([(999, 1000), (999, 1000), (999, 1000), (99, 100)])
    n_na, K = rng.choice([1, 1, 2]), rng.choice([1, 1, 2])
    N = n_na + 1
    cyc = n_na == 2 and rng.random() < 0.5
    exit_r = rng.choice([0, 1])
    P = [[[0] * N for _ in range(K)] for _ in range(N)]
    R = [[[0] * N for _ in range(K)] for _ in range(N)]
    for s in range(n_na):
        for a in range(K):
            loop_to = (1 - s) if cyc else s
            out_to = n_na if (cyc or s == n_na - 1) else s + 1
            P[s][a][loop_to] += 3
            P[s][a][out_to] += 1
            R[s][a][loop_to] = -1 if exit_r == 0 else rng.choice([0, -1])
            R[s][a][out_to] = exit_r if out_to == n_na else rng.choice([-1, 0])
    for a in range(K):
        P[n_na][a][n_na] = 4
    m = {"N": N, "K": K, "PD": 4, "GN": GN, "GD": GD, "ID": 1, "abs": [0] * n_na + [1],
         "avail": [[1] * K for _ in range(N)], "P": P, "R": R, "p0": [1] + [0] * (N - 1)}
    rep = dict(REPS[rng.randrange(len(REPS))])
    cfg = {"thr": rng.choice([1, 1, 2]), "episodes": rng.choice([3, 5, 8]), "seed": rng.randrange(10 ** 6),
           "diff": list(rng.choice([(1, 100000), (1, 1000), (1, 100)])), "reuse": 0}
    return {"m": m, "rep": rep, "cfg": cfg, "shape": "slow-mixing"}


def sweeps_needed(t, cnt, tcnt, diff, cap=3000):
    """Sweeps a planning call started at the optimistic table needs on the final model (vacuity guard only)."""
    N, K, thr = t["N"], t["K"], t["thr"]
    g = t["GN"] / t["GD"]
    vmax = t["rmax"] / (1 - g)
    q = [[vmax] * K for _ in range(N)]
    known = [(s, a) for s in range(N) for a in range(K) if cnt[s][a] >= thr]
    for k in range(cap):
        v = [max(row) for row in q]
        new = {(s, a): sum(tcnt[s][a][n] / thr * (t["R"][s][a][n] + g * v[n]) for n in range(N) if tcnt[s][a][n])
               for s, a in known}
        if all(abs(q[s][a] - x) < diff for (s, a), x in new.items()):
            return k
        for (s, a), x in new.items():
            q[s][a] = x
    return cap


def real_instance(case):
    """The instance handed to msdm: integer rewards, lowered by RE / EPSD in the near-tie family."""
    m = case["m"]
    if not case.get("RE"):
        return m
    N, K = m["N"], m["K"]
    m2 = dict(m)
    m2["R"] = [[[m["R"][s][a][t] - case["RE"][s][a][t] / EPSD for t in range(N)] for a in range(K)] for s in range(N)]
    return m2


def same_shape_instance(m_real, rng):
    """Another MDP with the same states, actions, reachability and maximal reward: actions reversed, some
    non-maximal rewards lowered by one."""
    N, K = m_real["N"], m_real["K"]
    top = max(x for s in m_real["R"] for a in s for x in a)
    m2 = dict(m_real)
    m2["P"] = [[list(m_real["P"][s][K - 1 - a]) for a in range(K)] for s in range(N)]
    m2["R"] = [[[(x - 1 if x < top and rng.random() < 0.5 else x) for x in m_real["R"][s][K - 1 - a]]
                for a in range(K)] for s in range(N)]
    return m2


# --------------------------------------------------------------------------------------------
# running the real learner, recording through the repository's listener interface
# --------------------------------------------------------------------------------------------
class MissingLocals(Exception):
    pass


class RunTooLong(BaseException):      # not an Exception: must not be swallowed by the learner or the listener
    pass


RUN_LIMIT_S = 20


def _recorder_class():
    from msdm.algorithms.rmax import RMAXEventListener

    class Recorder(RMAXEventListener):
        last = None

        def __init__(self):
            self.ev = []
            type(self).last = self

        def end_of_timestep(self, local_vars):
            for k in ("s", "a", "r", "ns"):
                if k not in local_vars:
                    raise MissingLocals(k)
            q = None
            try:
                q = np.array(local_vars["self"].q_matrix, dtype=float).copy()
            except Exception:                      # noqa: BLE001 - internal table not observable: drift, not a verdict
                pass
            self.ev.append(("step", local_vars["s"], local_vars["a"], local_vars["r"], local_vars["ns"], q))

        def end_of_episode(self, local_vars):
            self.ev.append(("end",))

        def results(self):
            return self.ev
    return Recorder


def _warmup_mdp(rmax, gamma):
    """A two-state chain with maximal reward rmax (for the learner-reuse shape)."""
    from msdm.core.mdp import QuickTabularMDP
    from msdm.core.distributions import DeterministicDistribution
    return QuickTabularMDP(next_state_dist=lambda s, a: DeterministicDistribution("w1"),
                           reward=lambda s, a, ns: float(rmax) if s == "w0" else 0.0,
                           actions=lambda s: ("x", "y"),
                           initial_state_dist=lambda: DeterministicDistribution("w0"),
                           is_absorbing=lambda s: s == "w1", discount_rate=gamma)


def collect(res, b, m):
    """Project a Result to abstract indices: returned rows, exact ranks, policy support (queried now)."""
    o = {"events": list(res.event_listener_results), "q": {}, "pol": {}, "rk": {}}
    qv = res.q_values
    for s in range(m["N"]):
        lab = b.slabel[s]
        if lab in qv and all(al in qv[lab] for al in b.alabel):
            o["q"][s] = [float(qv[lab][al]) for al in b.alabel]
            # dense ranks of the returned values themselves (exact comparison, no float conversion)
            vals = [qv[lab][al] for al in b.alabel]
            o["rk"][s] = [1 + len({w for w in vals if w < v}) for v in vals]
            dist = res.policy.action_dist(lab)
            o["pol"][s] = [0] * m["K"]
            for a_lab, p in dist.items():
                if p > 0:
                    o["pol"][s][b.aidx(a_lab)] = 1
    o["state_list"] = list(b.mdp.state_list)
    o["action_list"] = list(b.mdp.action_list)
    return o


def instance_rmax(mr, listed):
    cells = [(mr["R"][s][a][t] if mr["P"][s][a][t] > 0 else 0) for s in listed for a in range(mr["K"]) for t in listed]
    return float(max(cells))


def run_real(case):
    """Run RMAX.train_on on the case; returns a dict with raw observations (labels -> abstract indices)."""
    from msdm.algorithms.rmax import RMAX
    m, rep, cfg = case["m"], case["rep"], case["cfg"]
    mr = real_instance(case)
    rng = random.Random(digest({"m": m, "rep": rep}))
    b = build.build_mdp(mr, rng=rng, **rep)
    out = {"b": b}
    # rmax is NOT read off msdm's arrays: it is the instance's maximal reward in msdm's own convention (rewards of the
    # positive-probability transitions between listed states, 0 where no transition exists).  The learner asserts that
    # this equals max(mdp.reward_matrix); an AssertionError on a legal instance is a failure to return Q-values.
    try:
        listed = [b.sidx(lab) for lab in b.mdp.state_list]
    except ValueError:
        out["skip"] = "state_list names a state outside the instance"
        return out
    rmax_f = instance_rmax(mr, listed)
    if rmax_f != int(rmax_f):
        out["skip"] = "near-tie family: the maximal reward is a lowered one"
        return out
    out["rmax"] = int(rmax_f)
    out["rmax_f"], out["g_f"] = rmax_f, float(b.mdp.discount_rate)
    diff = cfg["diff"][0] / cfg["diff"][1]
    rec_cls = _recorder_class()
    rmax_cfg = rmax_f + cfg.get("rmax_plus", 0)
    out["rmax_cfg"] = rmax_cfg
    learner = RMAX(episodes=cfg["episodes"], rmax=rmax_cfg, num_transition_samples=cfg["thr"],
                   bellman_convergence_diff=diff, seed=cfg["seed"], event_listener_class=rec_cls)
    import signal

    def _alarm(signum, frame):
        raise RunTooLong()
    prev = signal.signal(signal.SIGALRM, _alarm)
    signal.alarm(RUN_LIMIT_S)
    first = None
    try:
        reuse = cfg.get("reuse")
        reuse = "other-shape" if reuse == 1 else reuse
        if reuse == "other-shape":
            if rmax_f < 0:
                out["skip"] = "negative rmax with learner reuse"
                return out
            learner.episodes = 2 * cfg["thr"]      # two actions: some pair reaches the threshold, value iteration runs
            learner.train_on(_warmup_mdp(rmax_f, b.mdp.discount_rate))
            learner.episodes = cfg["episodes"]
        elif reuse in ("same-mdp", "same-shape", "other-discount"):
            # the same learner object is first trained on the same MDP / on another MDP of the same shape;
            # both runs are recorded and judged (the first one's Result is only queried after the second run)
            if reuse == "same-mdp":
                bw, mw = b, m
            elif reuse == "other-discount":
                # the same MDP with another discount rate: nothing computed from the first run's discount may survive
                mw = dict(mr, GN=cfg["warm_gamma"][0], GD=cfg["warm_gamma"][1])
                bw = build.build_mdp(mw, rng=random.Random(digest({"m": m, "rep": rep})), **rep)
            else:
                mw = same_shape_instance(mr, random.Random(digest({"w": m})))
                bw = build.build_mdp(mw, rng=random.Random(digest({"m": m, "rep": rep})), **rep)
                if len(bw.mdp.state_list) != len(b.mdp.state_list) or \
                        instance_rmax(mw, [bw.sidx(lab) for lab in bw.mdp.state_list]) != rmax_f:
                    out["skip"] = "same-shape warm-up MDP has another maximal reward or state list"
                    return out
            learner.episodes = cfg.get("warm_episodes", 10)
            res1 = learner.train_on(bw.mdp)
            learner.episodes = cfg["episodes"]
            first = (res1, bw, mw)
        res = learner.train_on(b.mdp)
        out.update(collect(res, b, m))
        if not reuse and not case.get("RE") and case.get("shape") != "slow-mixing" and not cfg.get("rmax_plus"):
            # the same configuration with the library's default listener: the listener does not touch the random
            # generator, so this run experiences the same history; what it reports is judged against the recorded one
            twin = RMAX(episodes=cfg["episodes"], rmax=rmax_f, num_transition_samples=cfg["thr"],
                        bellman_convergence_diff=diff, seed=cfg["seed"]).train_on(b.mdp)
            er = getattr(twin.event_listener_results, "episode_rewards", None)
            if er is not None:
                out["er"] = [int(round(float(x) * 1024)) if float(x) * 1024 == round(float(x) * 1024) else 10 ** 8
                             for x in list(er)]
        if first is not None:
            # the Result of the earlier call is only looked at now, after the learner has been trained again:
            # it must still be self-consistent (its policy greedy for its own q_values)
            res1, bw, mw = first
            out["first"] = dict(collect(res1, bw, mw), b=bw, rmax=out["rmax"], m=mw, rmax_f=out["rmax_f"],
                                g_f=float(bw.mdp.discount_rate))
    except AssertionError as e:
        if cfg.get("rmax_plus"):
            # configured rmax above the MDP's maximal reward: the library refuses the run, which is fine
            out["skip"] = "learner refused an rmax above the maximal reward (expected)"
        else:
            out["error"] = f"AssertionError: {e}"[:300]
            out["error_type"] = "AssertionError"
    except MissingLocals as e:
        out["skip"] = f"listener locals() lacks {e}"
        out["drift"] = "listener-locals-missing"
    except RunTooLong:
        # a run on <= 7 states and <= 20 episodes normally takes milliseconds; not returning is not a clause
        # of the statement: the steps experienced so far are judged, the rest is drift (the check must not hang)
        out["cut"] = True
        out["events"] = list(rec_cls.last.ev[:400]) if rec_cls.last is not None else []
        out["q"], out["pol"] = {}, {}
        out["state_list"] = list(b.mdp.state_list)
        out["action_list"] = list(b.mdp.action_list)
    except Exception as e:                          # noqa: BLE001 - judged as a failure of the statement
        out["error"] = f"{type(e).__name__}: {e}"[:300]
        out["error_type"] = type(e).__name__
    finally:
        signal.alarm(0)
        signal.signal(signal.SIGALRM, prev)
    return out


def quant(x, sc, bound):
    if x is None or isinstance(x, complex) or math.isnan(x):
        return -bound
    if math.isinf(x) or abs(x) * sc > bound:
        return bound if x > 0 else -bound
    return int(round(x * sc))


def set_or_list(labels):
    try:
        return set(labels)
    except TypeError:
        return list(labels)


def to_trace(case, out, tag):
    """Project the recorded run to the abstract trace record read by the spec."""
    m, cfg, b = case["m"], case["cfg"], out["b"]
    N, K, thr, rmax = m["N"], m["K"], cfg["thr"], out["rmax"]
    rbound = max(abs(rmax), math.ceil(abs(out.get("rmax_cfg", rmax))))     # the configured rmax may be larger
    sc = scale_for(m, thr, rbound)
    if sc is None:
        return None
    g = F(m["GN"], m["GD"])
    diff = F(cfg["diff"][0], cfg["diff"][1])
    B = F(max(rewards_bound(m), rbound, 1)) / (1 - g)
    clamp = int(2 * B * sc)
    sidx = {lab: i for i, lab in enumerate(b.slabel)}
    aidx = {lab: i for i, lab in enumerate(b.alabel)}

    def si(lab):
        try:
            return sidx.get(lab, -1) + 1
        except TypeError:
            return 0

    def ai(lab):
        try:
            return aidx.get(lab, -1) + 1
        except TypeError:
            return 0

    sl, al = out["state_list"], out["action_list"]
    ev = []
    raw = []           # raw float tables aligned with ev (for the exact Fraction cross-check)
    last = None
    for e in out["events"]:
        if e[0] == "end":
            ev.append({"k": "end"})
            raw.append(None)
            continue
        _, s, a, r, ns, qm = e
        try:
            r2 = int(round(float(r) * 1024))
        except Exception:                            # noqa: BLE001
            r2 = 10 ** 8
        rec = {"k": "step", "s": si(s), "a": ai(a), "ns": si(ns), "r2": r2, "q": []}
        rq = None
        if qm is not None and qm.ndim == 2 and (last is None or last.shape != qm.shape or not np.array_equal(last, qm)):
            rows = [[] for _ in range(N)]
            rq = {}
            for i in range(min(qm.shape[0], len(sl))):
                s_abs = si(sl[i]) - 1
                if s_abs < 0 or qm.shape[1] != len(al):
                    continue
                row = [None] * K
                for j in range(len(al)):
                    a_abs = ai(al[j]) - 1
                    if a_abs >= 0:
                        row[a_abs] = float(qm[i, j])
                if all(x is not None for x in row):
                    rows[s_abs] = [quant(x, sc, clamp) for x in row]
                    rq[s_abs] = row
            rec["q"] = rows
            last = qm
        ev.append(rec)
        raw.append(rq)
    rows = [[] for _ in range(N)]
    pol = [[0] * K for _ in range(N)]
    rk = [[] for _ in range(N)]
    for s, row in out["q"].items():
        rows[s] = [quant(x, sc, clamp) for x in row]
        pol[s] = out["pol"][s]
        rk[s] = out["rk"][s]
    if out.get("cut"):
        ev.append({"k": "cut"})
        raw.append(None)
    else:
        ev.append({"k": "final", "q": rows, "pol": pol, "rk": rk,
                   "ern": 1 if "er" in out else 0, "er": out.get("er", [])})
        raw.append(dict(out["q"]))
    vmax = F(rmax) / (1 - g)
    rec = {k: m[k] for k in ("N", "K", "PD", "GN", "GD", "ID", "abs", "avail", "P", "R", "p0")}
    eps = F(1, EPSD) if case.get("RE") else F(0)
    rec["lst"] = [1 if lab in set_or_list(out["state_list"]) else 0 for lab in b.slabel]
    rec.update(thr=thr, rmax=rmax, SC=sc, DQ=math.ceil(diff * sc), EQ=math.ceil(eps * sc), actrule="code", tag=tag,
               TC=math.ceil(1024 * (diff + eps + F(3, sc)) / (1 - g)) + 3,
               orc=1 if sc >= 1024 and oracle_feasible(m, thr, rmax) else 0, ev=ev)   # FarAt works in 1/1024 units
    if case.get("RE"):
        rec["RE"] = case["RE"]          # not read by the spec (it widens the residual tolerance by EQ instead)
    return rec, raw


# --------------------------------------------------------------------------------------------
# independent re-implementation of the judge (integers) and of the exact fixed point (Fractions)
# --------------------------------------------------------------------------------------------
def py_fixed_point(t, cnt, tcnt):
    """Exact fixed point of the empirical optimistic model by Howard policy iteration in V-space.

    Unknown pairs are worth Vmax; known pairs use tcnt / thr and the MDP's rewards."""
    N, K, thr = t["N"], t["K"], t["thr"]
    g = F(t["GN"], t["GD"])
    vmax = F(t["rmax"]) / (1 - g)
    known = [[cnt[s][a] >= thr for a in range(K)] for s in range(N)]
    full = [s for s in range(N) if all(known[s])]
    pol = {s: 0 for s in full}

    def qval(V, s, a):
        if not known[s][a]:
            return vmax
        return sum(F(tcnt[s][a][n], thr) * (t["R"][s][a][n] + g * V[n]) for n in range(N) if tcnt[s][a][n])

    for _ in range(1000):
        # evaluate: V[s] = q(s, pol[s]) on `full`, Vmax elsewhere
        idx = {s: i for i, s in enumerate(full)}
        A = [[F(0)] * len(full) for _ in full]
        bvec = [F(0)] * len(full)
        for s in full:
            i = idx[s]
            A[i][i] += 1
            a = pol[s]
            for n in range(N):
                p = F(tcnt[s][a][n], thr)
                if p == 0:
                    continue
                bvec[i] += p * t["R"][s][a][n]
                if n in idx:
                    A[i][idx[n]] -= g * p
                else:
                    bvec[i] += g * p * vmax
        x = _gauss(A, bvec)
        V = [vmax] * N
        for s in full:
            V[s] = x[idx[s]]
        new = {s: max(range(K), key=lambda a: (qval(V, s, a), -a)) for s in full}
        if all(qval(V, s, new[s]) == qval(V, s, pol[s]) for s in full):
            return [[qval(V, s, a) for a in range(K)] for s in range(N)]
        pol = new
    raise TLCFailure("python policy iteration did not terminate")


def _gauss(A, b):
    n = len(A)
    M = [row[:] + [b[i]] for i, row in enumerate(A)]
    for c in range(n):
        p = next(r for r in range(c, n) if M[r][c] != 0)
        M[c], M[p] = M[p], M[c]
        inv = 1 / M[c][c]
        M[c] = [v * inv for v in M[c]]
        for r in range(n):
            if r != c and M[r][c] != 0:
                f = M[r][c]
                M[r] = [v - f * w for v, w in zip(M[r], M[c])]
    return [M[i][n] for i in range(n)]


def py_reach(t):
    N, K = t["N"], t["K"]
    seen = {s for s in range(N) if t["p0"][s] > 0}
    fr = list(seen)
    while fr:
        s = fr.pop()
        if t["abs"][s]:
            continue
        for a in range(K):
            for n in range(N):
                if t["P"][s][a][n] > 0 and n not in seen:
                    seen.add(n)
                    fr.append(n)
    return seen


def py_judge_q(t, cnt, tcnt, rsum, o, reach):
    N, K, thr, sc = t["N"], t["K"], t["thr"], t["SC"]
    gap = t["GD"] - t["GN"]
    vqn = t["rmax"] * t["GD"] * sc
    rows = [s for s in range(N) if len(o[s]) == K]
    vq = [max(o[s]) if len(o[s]) == K else 0 for s in range(N)]
    bad = set()
    for s in rows:
        for a in range(K):
            if o[s][a] * gap > vqn + 2 * gap:
                bad.add("exceeds-vmax")
            if cnt[s][a] < thr:
                if abs(o[s][a] * gap - vqn) > 2 * gap:
                    bad.add("unknown-pair-not-optimistic")
            else:
                res = abs(o[s][a] * thr * t["GD"] - (rsum[s][a] * t["GD"] * sc
                                                    + t["GN"] * sum(tcnt[s][a][n] * vq[n] for n in range(N))))
                if res > (t["DQ"] + t["EQ"] + 2) * thr * t["GD"]:
                    bad.add("empirical-bellman-residual")
    seen = {s for s in range(N) if any(cnt[s])} | {n for s in range(N) for a in range(K) for n in range(N) if tcnt[s][a][n]}
    if (seen | reach) - set(rows):
        bad.add("reachable-state-without-q")
    if {s for s in range(N) if t["lst"][s]} - (set(rows) | seen | reach):
        bad.add("listed-state-without-q")
    return bad


def py_model(t):
    """The count-limited model of the recorded history (first thr samples of every pair)."""
    N, K, thr = t["N"], t["K"], t["thr"]
    cnt = [[0] * K for _ in range(N)]
    tcnt = [[[0] * N for _ in range(K)] for _ in range(N)]
    for e in t["ev"]:
        if e["k"] == "step":
            s, a, ns = e["s"], e["a"], e["ns"]
            if 1 <= s <= N and 1 <= a <= K and 1 <= ns <= N and cnt[s - 1][a - 1] < thr:
                cnt[s - 1][a - 1] += 1
                tcnt[s - 1][a - 1][ns - 1] += 1
    return cnt, tcnt


def annotate_exact(t, raw_final, rmax_f, g_f, diff):
    """Exact side of the final event: facts about the raw 53-bit floats that 32-bit integers cannot hold.

    xo[s][a] = 1 iff the returned value equals the optimistic value rmax/(1-gamma) exactly, i.e. it is the double
               nearest to the rational quotient of the two double parameters, or the IEEE evaluation of
               rmax / (1 - gamma) (the two coincide whenever 1 - gamma is exact, i.e. gamma >= 1/2)
    xr[s][a] = 1 iff |Q(s,a) - (Rhat + gamma sum_n That(n) max Q(n,.))| < diff + B 2^-40 in exact rational arithmetic
               on the model (xc, xt) of the recorded history; B 2^-40 covers the float64 evaluation of the code's own
               stopping test ((N+6) u B with u = 2^-53, N <= 7) with a factor > 500 to spare
    TLC decides which pairs are known / untried and checks that (xc, xt) is its own model."""
    N, K, thr = t["N"], t["K"], t["thr"]
    fin = t["ev"][-1]
    if fin["k"] != "final":
        return
    cnt, tcnt = py_model(t)
    g = F(t["GN"], t["GD"])
    refs = {float(F(rmax_f) / (1 - F(g_f))) if g_f != 1 else None, rmax_f / (1.0 - g_f)}
    B = F(max(rewards_bound(t), abs(t["rmax"]), 1)) / (1 - g)
    slack = B / 2 ** 40
    V = {s: max(F(x) for x in row) if all(math.isfinite(x) for x in row) else None for s, row in raw_final.items()}
    xo = [[] for _ in range(N)]
    xr = [[] for _ in range(N)]
    for s, row in raw_final.items():
        xo[s] = [1 if any(r is not None and x == r for r in refs) else 0 for x in row]
        xr[s] = [1] * K
        for a in range(K):
            if cnt[s][a] >= thr:
                succ = [n for n in range(N) if tcnt[s][a][n]]
                if not math.isfinite(row[a]) or any(V.get(n, 0) is None for n in succ):
                    xr[s][a] = 0
                    continue
                rhs = sum(F(tcnt[s][a][n], thr) * (t["R"][s][a][n] - (F(t["RE"][s][a][n], EPSD) if "RE" in t else 0)
                                                  + g * V.get(n, 0)) for n in succ)
                if abs(F(row[a]) - rhs) >= diff + slack:
                    xr[s][a] = 0
    fin.update(xo=xo, xr=xr, xc=cnt, xt=tcnt)


def py_validate(t):
    """Expected `fail` set, final model and exact fixed point, computed without TLA+."""
    N, K, thr = t["N"], t["K"], t["thr"]
    cnt = [[0] * K for _ in range(N)]
    tcnt = [[[0] * N for _ in range(K)] for _ in range(N)]
    rsum = [[0] * K for _ in range(N)]
    cur = 0
    fail = set()
    epr, epcur = [], 0
    reach = py_reach(t)
    for pos, e in enumerate(t["ev"], start=1):
        if e["k"] == "end":
            cur = 0
            epr.append(epcur)
            epcur = 0
        elif e["k"] == "step":
            s, a, ns = e["s"], e["a"], e["ns"]
            ok = 1 <= s <= N and 1 <= a <= K and 1 <= ns <= N
            if not ok:
                fail.add(("step-outside-the-mdp", pos))
                cur = 0
                epcur += e["r2"]
                continue
            epcur += 1024 * t["R"][s - 1][a - 1][ns - 1]
            s0, a0, n0 = s - 1, a - 1, ns - 1
            if t["P"][s0][a0][n0] == 0:
                fail.add(("step-not-a-transition", pos))
            elif e["r2"] != 1024 * t["R"][s0][a0][n0]:
                fail.add(("step-wrong-reward", pos))
            if t["abs"][s0]:
                fail.add(("step-from-absorbing-state", pos))
            if cur != 0 and s != cur:
                fail.add(("step-not-from-current-state", pos))
            if cur == 0 and t["p0"][s0] == 0:
                fail.add(("episode-start-outside-initial-support", pos))
            if cnt[s0][a0] < thr:
                cnt[s0][a0] += 1
                tcnt[s0][a0][n0] += 1
                rsum[s0][a0] += t["R"][s0][a0][n0]
            cur = ns
        elif e["k"] == "final":
            o, pol, rk = e["q"], e["pol"], e["rk"]
            if e["ern"] == 1 and e["er"] != epr:
                fail.add(("episode-rewards-not-of-this-run", pos))
            for x in py_judge_q(t, cnt, tcnt, rsum, o, reach):
                fail.add((x, pos))
            for s in range(N):
                if len(rk[s]) == K:
                    if not any(pol[s]) or any(pol[s][a] and rk[s][a] < max(rk[s]) for a in range(K)):
                        fail.add(("policy-not-greedy", pos))
                if len(e["xo"][s]) == K:
                    for a in range(K):
                        if cnt[s][a] < thr and e["xo"][s][a] == 0:
                            fail.add(("unknown-pair-not-exactly-optimistic", pos))
                        if cnt[s][a] >= thr and e["xr"][s][a] == 0:
                            fail.add(("empirical-bellman-residual", pos))
    return fail, cnt, tcnt, rsum


# --------------------------------------------------------------------------------------------
# judging
# --------------------------------------------------------------------------------------------
def signature(case, tag):
    site = SITE.get(tag, "RMAX.train_on")
    return f"C17:{site}:{tag}" + (f":{case['shape']}" if case.get("shape") else "")


def strip(case):
    return {k: case[k] for k in ("m", "rep", "cfg", "shape", "RE") if k in case}


def judge_cases(ctx, cases, *, mutate=None, confirm=True):
    """Run the real learner on every case, validate the traces with TLC, report verdicts.

    mutate(i, trace_record) may corrupt a projected trace (selftest)."""
    traces, meta = [], []
    for i, c in enumerate(cases):
        if ctx.counters.get("runs_that_did_not_return", 0) >= 3:
            ctx.skip("not run after three runs that did not return")
            continue
        out = run_real(c)
        ctx.evaluations += 1
        if out.get("cut"):
            ctx.count("runs_that_did_not_return")
        if "skip" in out:
            ctx.skip(out["skip"])
            if out.get("drift"):
                ctx.drift(out["drift"], {"case": digest(strip(c))})
            continue
        if "error" in out:
            ctx.violation(signature(c, "raises-" + out["error_type"]),
                          f"RMAX.train_on raised {out['error']}", {"case": strip(c), "clause": "error"})
            continue
        if "er" in out:
            ctx.evaluations += 1
            ctx.count("default_listener_twin_runs")
        todo = [(c, out, c)]
        if out.get("first"):
            # the earlier Result of a reused learner, queried after the learner was trained again
            ctx.evaluations += 1
            c1 = strip(c)
            c1["m"] = out["first"]["m"]
            c1["cfg"] = dict(c["cfg"], episodes=c["cfg"].get("warm_episodes", 10), reuse=0)
            c1["shape"] = "earlier-result-queried-after-retraining"
            todo.append((c1, out["first"], c))
        for ct, ot, origin in todo:
            pr = to_trace(ct, ot, tag=str(len(traces) + 1))
            if pr is None:
                ctx.skip("numbers too large for the 30-bit integer judge")
                continue
            t, raw = pr
            if len(t["ev"]) > 1500:
                ctx.skip("trace longer than 1500 events")
                continue
            annotate_exact(t, raw[-1], ot["rmax_f"], ot["g_f"], F(ct["cfg"]["diff"][0], ct["cfg"]["diff"][1]))
            if mutate is not None:
                mutate(len(traces), t)
                if t["ev"][-1]["k"] == "final":      # the corrupted trace is what both judges see: keep the models in step
                    t["ev"][-1]["xc"], t["ev"][-1]["xt"] = py_model(t)
            traces.append(t)
            meta.append((ct, raw, origin))
    if not traces:
        return []
    res = run_tlc(ctx.workdir / f"trace{ctx.counters.get('trace_batches', 0)}", MODULE, CFG_TRACE,
                  files={"batch.json": traces}, env={"BATCH_FILE": "batch.json", "MODE": "trace"})
    # (-coverage is not used: with the recursive oracle operators TLC's coverage collection exhausts a 6 GB heap;
    #  the number of TrStep / TrEnd / TrFinal actions taken is counted from the traces instead)
    for t in traces:
        for e in t["ev"]:
            ctx.count({"step": "action:TrStep", "end": "action:TrEnd", "final": "action:TrFinal", "cut": "action:TrCut"}[e["k"]])
    ctx.count("trace_batches")
    ctx.add_tlc(res, "trace validation of recorded RMAX.train_on runs")
    bad = [v for v in res.violated if v in DESIGN_INVS]
    if bad:
        raise TLCFailure(f"design-level invariant violated while validating traces: {sorted(set(bad))}\n"
                         + (res.traces[0][:3000] if res.traces else ""))
    by = {r["tag"]: r for r in res.records}
    verdicts = []
    redo = []
    for k, (t, (c, raw, origin)) in enumerate(zip(traces, meta)):
        r = by.get(t["tag"])
        if r is None:
            raise TLCFailure(f"no verdict record for trace {t['tag']} (the trace actions must be total)")
        tfail = {(x[0], x[1]) for x in r["fail"]}
        tdrift = {(x[0], x[1], x[2]) for x in r["drift"]}
        # ---- machinery cross-check: the same verdict from the independent Python judge
        pfail, cnt, tcnt, rsum = py_validate(t)
        if pfail != tfail:
            raise TLCFailure(f"TLA+ judge and Python judge disagree on trace {t['tag']}: {sorted(tfail)} vs {sorted(pfail)}")
        if r["cnt"] != cnt or r["tcnt"] != tcnt or r["rsum"] != rsum or \
                any(x[1] == "exact-side-model-differs" for x in tdrift):
            raise TLCFailure(f"TLA+ bookkeeping and Python bookkeeping disagree on trace {t['tag']}")
        ctx.count("judge_crosschecks")
        diff = F(c["cfg"]["diff"][0], c["cfg"]["diff"][1])
        g = F(t["GN"], t["GD"])
        cut = t["ev"][-1]["k"] == "cut"
        if cut:
            for tag, pos in sorted(tfail):
                ctx.violation(signature(c, tag), f"{SITE.get(tag, 'RMAX')}: clause '{tag}' fails at event {pos} of a run that "
                              f"did not return within {RUN_LIMIT_S}s", {"case": strip(origin), "clause": tag, "position": pos, "trace": c["shape"]})
            ctx.drift("final:run-did-not-return", {"case": digest(strip(origin))})
            verdicts.append((tfail, tdrift))
            continue
        if t["orc"] == 1 and not any(x[0].startswith("step") for x in tfail):
            qs = py_fixed_point(t, cnt, tcnt)
            tq = [[frac(x) for x in row] for row in r["qstar"]]
            if tq != qs:
                raise TLCFailure(f"TLA+ fixed point and Python fixed point disagree on trace {t['tag']}: {tq} vs {qs}")
            ctx.count("oracle_crosschecks")
            # contraction: the returned table is within residual / (1 - gamma) of the exact machine
            if not tfail:
                far = max([abs(F(x) - qs[s][a]) for s, row in raw[-1].items() for a, x in enumerate(row)] + [F(0)])
                slack = F(max(rewards_bound(t), abs(t["rmax"]), 1)) / (1 - g) / 2 ** 40
                eps = F(1, EPSD) if "RE" in t else F(0)
                if far > (diff + eps + 2 * slack) / (1 - g) + slack:
                    raise TLCFailure(f"trace {t['tag']}: residual clause holds exactly but the table is {float(far)} "
                                     f"from the exact fixed point (oracle or judge wrong)")
        # ---- verdicts
        for tag, pos in sorted(tfail):
            ctx.violation(signature(c, tag), f"{SITE.get(tag, 'RMAX')}: clause '{tag}' fails at event {pos} of the run "
                          f"(thr={t['thr']}, episodes={c['cfg']['episodes']}, seed={c['cfg']['seed']})",
                          {"case": strip(origin), "clause": tag, "position": pos, "trace": c["shape"]})
        for kind, tag, pos in sorted(tdrift):
            ctx.count(f"drift:{kind}:{tag}")
        kinds = sorted({(kind, tag) for kind, tag, _ in tdrift})
        for kind, tag in kinds:
            ctx.drift(f"{kind}:{tag}", {"case": digest(strip(origin)), "positions": [p for k2, t2, p in sorted(tdrift) if (k2, t2) == (kind, tag)][:5]})
        # a clause failing on the table at an episode end = on the table a shorter run returns: confirm by running it
        if confirm and not tfail and origin is c:
            ends = [p for kind, tag, p in tdrift if kind == "epend"]
            if ends:
                ep = sum(1 for e in t["ev"][:min(ends)] if e["k"] == "end")
                c2 = strip(c)
                c2["cfg"] = dict(c["cfg"], episodes=ep)
                redo.append(c2)
        if not tfail and not tdrift:
            ctx.validated += 1
        nsteps = sum(1 for e in t["ev"] if e["k"] == "step")
        ctx.count("events_validated", len(t["ev"]))
        known = sum(1 for s in range(t["N"]) for a in range(t["K"]) if cnt[s][a] >= t["thr"])
        visited_unknown = sum(1 for s in range(t["N"]) for a in range(t["K"]) if cnt[s][a] < t["thr"] and any(cnt[s]))
        if known and visited_unknown:
            ctx.nontrivial(digest(strip(c)))
        if known:
            ctx.count("runs_with_known_pairs")
        # vacuity guard of the exact greedy clause: returned rows whose two best values are unequal but isclose
        for row in raw[-1].values():
            d = sorted(set(row))
            if len(d) >= 2 and d[-1] - d[-2] <= 1e-8 + 1e-5 * abs(d[-1]):
                ctx.count("returned_rows_with_unequal_near_tie_at_the_top")
        if c["cfg"].get("reuse"):
            ctx.count(f"reuse_runs_judged:{c['cfg']['reuse']}")
        if c.get("shape") == "slow-mixing":
            ctx.count("slow_mixing_runs_judged")
            if sweeps_needed(t, cnt, tcnt, float(diff)) > 1000:
                ctx.count("slow_mixing_runs_whose_final_model_needs_over_1000_sweeps")
        if t["orc"] == 0:
            ctx.count("runs_without_exact_oracle(>3 non-absorbing states or magnitude)")
        ctx.sample({"instance": {k: t[k] for k in ("N", "K", "PD", "GN", "GD", "abs", "P", "R", "p0")},
                    "rep": c["rep"], "cfg": c["cfg"], "rmax": t["rmax"], "steps": nsteps,
                    "final_counts": cnt, "returned_q": {str(s): row for s, row in raw[-1].items()},
                    "fail": sorted(tfail), "drift": sorted(tdrift)[:5]})
        verdicts.append((tfail, tdrift))
    if redo:
        ctx.count("confirmation_runs", len(redo))
        judge_cases(ctx, redo, confirm=False)
    return verdicts


# --------------------------------------------------------------------------------------------
# model checking of the reference machine
# --------------------------------------------------------------------------------------------
def mc_batch(rng, n, big=0):
    batch = []
    while len(batch) < n + big:
        is_big = len(batch) >= n
        GN, GD = rng.choice([(1, 2), (9, 10)])
        n_na = 3 if is_big else rng.choice([1, 2, 2])
        K = 2 if is_big else rng.choice([1, 2, 2])
        thr = 1 if is_big else rng.choice([1, 2])
        m = gen.rand_mdp(rng, n_na=n_na, n_abs=rng.choice([1, 1, 2]), K=K, PD=2, GN=GN, GD=GD,
                         rewards=rng.choice([(-1, 0, 1, 2), (0, 1), (-2, -1)]), ID=2, force_progress=True,
                         uniform_actions=True, ghost=rng.random() < 0.5, init_on_abs=0.15)
        N = m["N"]
        rm = max([m["R"][s][a][t] for s in range(N) if not m["abs"][s] for a in range(K) for t in range(N)
                  if m["P"][s][a][t] > 0] + [0])
        rmax = rm + rng.choice([0, 0, 1])
        if not oracle_feasible(m, thr, rmax):
            continue
        g = F(GN, GD)
        sc = 1024
        m["lst"] = [1] * N
        m.update(thr=thr, rmax=rmax, SC=sc, DQ=0, EQ=0, TC=math.ceil(1024 * F(3, sc) / (1 - g)) + 3, orc=1,
                 actrule=rng.choice(["code", "any"]), tag=str(len(batch) + 1), ev=[])
        batch.append(m)
    return batch


def run_mc(ctx, rng, n, big):
    batch = mc_batch(rng, n, big)
    res = run_tlc(ctx.workdir / "mc", MODULE, CFG_MC, files={"batch.json": batch},
                  env={"BATCH_FILE": "batch.json", "MODE": "mc"})
    ctx.add_tlc(res, f"mc: every experience history of the reference machine on {len(batch)} tiny MDPs (thr 1..2)")
    bad = sorted(set(res.violated))
    if bad:
        raise TLCFailure(f"design-level invariant violated in {MODULE}: {bad}\n" + "\n".join(res.traces[:2])[:4000])
    learned = {r["iid"] for r in res.records if r.get("kind") == "learned"}
    if not learned:
        raise TLCFailure("vacuous model checking run: no instance ever reached a fully known state")
    ctx.count("mc_instances", len(batch))
    ctx.count("mc_instances_reaching_a_fully_known_state", len(learned))
    return res


# --------------------------------------------------------------------------------------------
def run(ctx):
    rng = random.Random(ctx.seed * 7919 + 17)
    quick = ctx.tier == "quick"
    ctx.rule = ("recorded RMAX.train_on runs on random proper MDPs with uniform action sets (1-5 non-absorbing + 1-2 "
                "absorbing states, 1-3 actions, gamma in {1/2,3/4,9/10}) x threshold 1..5 x episodes 1..20 x seed x "
                "tolerance x representation, plus reuse histories (the judged run is the second train_on of one learner object, "
                "after the same MDP / another MDP of the same shape / of another shape), a near-tie family (duplicate action "
                "with rewards 2^-20 lower, greedy clause decided on exact float ranks), a slow-mixing family (gamma 99/100 and "
                "999/1000, looping known part, thousands of planning sweeps per call) and explicit state lists with "
                "unreachable states; non-trivial = at least one pair reached the threshold (value iteration ran) "
                "and at least one pair of a visited state is still below it at return, so both value clauses bind")
    ctx.assumptions = [
        "the table at an end_of_episode event is what a run with that many episodes returns (same seed); a clause "
        "failing there is confirmed by actually running the shorter configuration before it is reported",
        "floats are logged as round(x*SC); tolerances of the integer judge are derived in the header of spec/C17_RMax.tla "
        "and model-checked not to reject the exact machine (JudgeAcceptsMachine)",
        "facts about raw 53-bit floats that 32-bit integers cannot hold (dense ranks of a returned row, equality with the "
        "correctly rounded rmax/(1-gamma), exact rational Bellman residual below the configured tolerance + B*2^-40) are "
        "established by the recorder with Fractions and logged as flags; the spec decides which pairs they apply to and "
        "checks that the recorder's model equals its own",
        "for a reused learner both Results are judged; the earlier one is only queried after the later train_on",
        "every TLA+ verdict, the bookkeeping and the exact fixed point are reproduced by an independent Python "
        "implementation (integers / Fractions); a disagreement is a machinery failure"]
    run_mc(ctx, rng, 30 if quick else 400, 2 if quick else 16)
    n, nsp = (420, 8) if quick else (12000, 60)
    cases = make_cases(rng, n, nsp)
    chunk = 1500
    for k in range(0, len(cases), chunk):
        judge_cases(ctx, cases[k:k + chunk])


def replay(ctx, case):
    judge_cases(ctx, [case["case"]])


def selftest(ctx):
    """Binding demonstration: corrupt logged fields / drop an event in recorded traces of the real code;
    every corruption must be rejected with the expected clause and nothing else may be rejected."""
    rng = random.Random(5)
    cases = [make_case(rng) for _ in range(60)]
    plan = {}

    def mutate(i, t):
        steps = [j for j, e in enumerate(t["ev"]) if e["k"] == "step"]
        fin = t["ev"][-1]
        kind = ["unknown", "transition", "drop", "known", "policy", "reward", "ulp", "exactres", "eprew"][i % 9] if i < 54 else None
        N, K = t["N"], t["K"]
        if kind == "unknown":
            for s in range(N):
                if len(fin["q"][s]) == K and t["abs"][s] == 1:
                    fin["q"][s][0] -= t["SC"] // 2         # an untried pair reported half a unit below Vmax
                    plan[t["tag"]] = "unknown-pair-not-optimistic"
                    return
        if kind == "eprew" and fin.get("ern") == 1:
            fin["er"] = [1024] + list(fin["er"])            # an episode of some other run in front of this run's
            plan[t["tag"]] = "episode-rewards-not-of-this-run"
            return
        if kind == "ulp":
            for s in range(N):
                if len(fin["xo"][s]) == K and t["abs"][s] == 1:
                    fin["xo"][s][K - 1] = 0                 # an untried pair one ulp off the optimistic value
                    plan[t["tag"]] = "unknown-pair-not-exactly-optimistic"
                    return
        if kind == "exactres":
            for s in range(N):
                for a in range(K):
                    if len(fin["xr"][s]) == K and fin["xc"][s][a] >= t["thr"]:
                        fin["xr"][s][a] = 0                 # a known pair whose exact residual exceeds the tolerance
                        plan[t["tag"]] = "empirical-bellman-residual"
                        return
        if kind == "transition" and steps:
            j = steps[len(steps) // 2]
            e = t["ev"][j]
            zero = [n for n in range(N) if t["P"][e["s"] - 1][e["a"] - 1][n] == 0]
            if zero:
                e["ns"] = zero[0] + 1
                plan[t["tag"]] = "step-not-a-transition"
                return
        if kind == "drop":
            # a step in the middle of an episode that changes the state is lost
            for j in steps:
                e = t["ev"][j]
                if 0 < j < len(t["ev"]) - 1 and t["ev"][j - 1]["k"] == "step" and t["ev"][j + 1]["k"] == "step" \
                        and e["ns"] != e["s"]:
                    del t["ev"][j]
                    plan[t["tag"]] = "step-not-from-current-state"
                    return
        if kind == "reward" and steps:
            t["ev"][steps[-1]]["r2"] += 1024
            plan[t["tag"]] = "step-wrong-reward"
            return
        if kind == "policy":
            for s in range(N):
                if len(fin["rk"][s]) == K and K > 1 and max(fin["rk"][s]) > min(fin["rk"][s]):
                    lo = fin["rk"][s].index(min(fin["rk"][s]))
                    fin["pol"][s] = [1 if a == lo else 0 for a in range(K)]
                    plan[t["tag"]] = "policy-not-greedy"
                    return
        if kind == "known":
            # a sufficiently tried pair reported 1/4 below its Bellman value
            cnt = {}
            for j in steps:
                e = t["ev"][j]
                cnt[(e["s"], e["a"])] = cnt.get((e["s"], e["a"]), 0) + 1
            for (s, a), c in cnt.items():
                if c >= t["thr"] and len(fin["q"][s - 1]) == K:
                    fin["q"][s - 1][a - 1] -= t["SC"] // 4 + t["DQ"] * 2
                    plan[t["tag"]] = "any"
                    return

    before = len(ctx.violations)
    try:
        verdicts = judge_cases(ctx, cases, mutate=mutate, confirm=False)
    except TLCFailure as e:
        print(f"  selftest: machinery failure {e}")
        return False
    ok = len(plan) >= 12
    for i, (tfail, tdrift) in enumerate(verdicts):
        tag = str(i + 1)
        tags = {x[0] for x in tfail}
        want = plan.get(tag)
        if want is None and tags:
            print(f"  selftest: untouched trace {tag} rejected: {sorted(tags)}")
            ok = False
        if want == "any" and not tags:
            print(f"  selftest: corrupted trace {tag} accepted")
            ok = False
        if want not in (None, "any") and want not in tags:
            print(f"  selftest: corrupted trace {tag} not rejected with {want}: {sorted(tags)}")
            ok = False
    print(f"  selftest: {len(plan)} corrupted traces of {len(verdicts)}, kinds {sorted(set(plan.values()))}, "
          f"violations reported {len(ctx.violations) - before}")
    return ok
