"""X02 (extension) - implicit (Monte-Carlo) distributions are their seeded sample streams.

spec/X02_Implicit.tla is the model: a stream per seed, objects = chains of marginalize / condition over the
root, one action per step of msdm.core.distributions.distributions.ImplicitDistribution.

Pipelines
  MC + A  TLC explores every call sequence over EVERY stream of small families (mode "mc"), checks the laws
          and emits the expected result of every call.  The driver replays each emitted behaviour on the real
          class: `stochastic_function` is a lookup table from the uniform number drawn from the generator it
          is handed to the TLC-chosen event at that position of the stream of random.Random(seed) - so a
          result can only come out right if the class really reads the generator seeded with the seed, in
          stream order, and a read of any other generator is visible ("foreign").
  A       the same for sampled bigger cases (mode "script": longer chains, more seeds, lazy items()).
  B       real stochastic functions (thresholds, randint, two dice, choice, shuffle ...) on real seeds: the
          run is recorded, the reference streams are computed independently with random.Random(seed), and
          TLC (mode "trace") compares every recorded result with the machine's.
Verdicts: the machine classifies every call (cls).  A wrong result of a call that is the FIRST read of its
generator ("fresh": the clauses of the statement) or of a sample() that follows only sample() calls ("chain":
what msdm's own test needs), of sample(rng=g) not reading g, of a constructor raising, or two equally seeded
runs disagreeing is a VIOLATION; a wrong continuation after items()/expectation() ("cont"), deferred items()
("lazy"), the order of items(), the exception class and the read accounting are DRIFT.
"""
import random
from fractions import Fraction

from ..core import digest
from ..tlc import run_tlc, TLCFailure

MODULE = "X02_Implicit"
LAWS = ["LawItems", "LawFreshRoot", "LawExpect", "LawSample", "LawMarg", "LawCond", "LawRaise", "LawSeeded",
        "WellFormed"]
CFG = ("INIT Init\nNEXT Next\nVIEW View\nCHECK_DEADLOCK FALSE\nINVARIANT Emit\n"
       + "".join(f"INVARIANT {x}\n" for x in LAWS) + "PROPERTY Frame\n")
QS = 1024
TOL = 1e-9
ALLOPS = ["new", "marg", "cond", "sample", "samplex", "icall", "iiter", "expect"]
RESOPS = ("sample", "samplex", "iiter", "expect")
METHOD = {"new": "__init__", "marg": "marginalize", "cond": "condition", "sample": "sample", "samplex": "sample(rng)",
          "icall": "items", "iiter": "items", "expect": "expectation"}

POOLS = {
    "str": ["A", "B", "C", "D", "E", "F"],
    "falsy": [0, "", None, (), 0.5, frozenset()],
    "int": [3, 1, 2, 0, -1, 7],
    "tuple": [(0, 0), (0, 1), (1, 0), ("a",), (), (None,)],
    "mixed": ["a", 1, (1, 2), None, frozenset({1}), 2.5],
}
SEEDS = [0, 1, 7, 2 ** 31, -5, "seed", 12345678901234567890, 3.25, "", 42]      # json-able (replay files)
XKINDS = ["Random", "module", "subclass", "Random"]
DRAWS = ["random", "getrandbits", "randrange"]


class _Sentinel:
    def __init__(self, name):
        self.name = name

    def __repr__(self):
        return f"<{self.name}>"


FOREIGN = _Sentinel("draw-from-a-generator-that-is-not-seeded-with-a-seed-of-the-case")
OVERRUN = _Sentinel("draw-beyond-the-scripted-stream")


# --------------------------------------------------------------------------------------------
# independent oracle (plain python, Fractions where numbers are compared)
# --------------------------------------------------------------------------------------------
class Lazy:
    """A stream that grows on demand (gen() gives the next event) or a fixed list (gen None)."""

    def __init__(self, fixed=None, gen=None):
        self.buf = list(fixed or [])
        self.gen = gen

    def get(self, i):
        while len(self.buf) <= i and self.gen is not None:
            self.buf.append(self.gen())
        return self.buf[i] if i < len(self.buf) else None


def o_draw(a, ch, stream, pos):
    """One call of the sampler of chain ch on `stream` from pos -> (st, ev, pos)."""
    if not ch:
        e = stream.get(pos)
        return ("exh", 0, pos) if e is None else ("ok", e, pos + 1)
    kind, j = ch[-1]
    if kind == "m":
        st, ev, p = o_draw(a, ch[:-1], stream, pos)
        return (st, a["F"][j - 1][ev - 1], p) if st == "ok" else (st, ev, p)
    for _ in range(a["n"]):
        st, ev, pos = o_draw(a, ch[:-1], stream, pos)
        if st != "ok":
            return st, ev, pos
        if a["P"][j - 1][ev - 1] == 1:
            return "ok", ev, pos
    return "raise", 0, pos


def o_run(a, streams, script):
    """The expected completed calls (fields as the TLA+ Entry) or None when a stream is too short."""
    objs = [{"ch": (), "sd": 1, "pos": 0, "ss": 1}]
    exts = [{"sd": s, "pos": 0} for s in a["xsd"]]
    pend = None
    out = []
    n = a["n"]

    def entry(op, o, j, x, cls, st, ev, tab, sm, gsd, p0, p1):
        return {"op": op, "o": o, "j": j, "x": x, "cls": cls, "st": st, "ev": ev,
                "tab": {"ev": [t[0] for t in tab], "c": [t[1] for t in tab]}, "sum": sm, "gsd": gsd, "p0": p0, "p1": p1}
    for s in script:
        op, o, j, x = s["op"], s["o"], s["j"], s["x"]
        if op == "new":
            objs.append({"ch": (), "sd": j, "pos": 0, "ss": 1})
            out.append(entry(op, len(objs), j, 0, "", "none", 0, [], 0, j, 0, 0))
        elif op in ("marg", "cond"):
            par = objs[o - 1]
            objs.append({"ch": par["ch"] + (("m" if op == "marg" else "c", j),), "sd": par["sd"], "pos": 0, "ss": 1})
            out.append(entry(op, o, j, 0, "", "none", 0, [], 0, par["sd"], 0, 0))
        elif op == "sample":
            ob = objs[o - 1]
            cls = "fresh" if ob["pos"] == 0 else ("chain" if ob["ss"] else "cont")
            st, ev, p = o_draw(a, ob["ch"], streams[ob["sd"] - 1], ob["pos"])
            if st == "exh":
                return None
            out.append(entry(op, o, 0, 0, cls, st, ev, [], 0, ob["sd"], ob["pos"], p))
            ob["pos"] = p
            if pend and pend[0] == o:
                pend[1] = 1
        elif op == "samplex":
            ob, g = objs[o - 1], exts[x - 1]
            cls = "fresh" if g["pos"] == 0 else "chain"
            st, ev, p = o_draw(a, ob["ch"], streams[g["sd"] - 1], g["pos"])
            if st == "exh":
                return None
            out.append(entry(op, o, 0, x, cls, st, ev, [], 0, g["sd"], g["pos"], p))
            g["pos"] = p
        elif op == "icall":
            assert pend is None
            pend = [o, 0]
            out.append(entry(op, o, 0, 0, "", "none", 0, [], 0, objs[o - 1]["sd"], 0, 0))
        else:
            ob = objs[o - 1]
            if op == "iiter":
                assert pend and pend[0] == o
                dirty, pend = pend[1], None
            else:
                dirty = 0
            cls = "lazy" if dirty else ("fresh" if ob["pos"] == 0 else "cont")
            p0 = ob["pos"]
            tab, sm, st = [], 0, "ok"
            for _ in range(n):
                st, ev, p = o_draw(a, ob["ch"], streams[ob["sd"] - 1], ob["pos"])
                if st == "exh":
                    return None
                ob["pos"], ob["ss"] = p, 0
                if pend and pend[0] == o:
                    pend[1] = 1
                if st == "raise":
                    break
                if op == "iiter":
                    for t in tab:
                        if t[0] == ev:
                            t[1] += 1
                            break
                    else:
                        tab.append([ev, 1])
                else:
                    sm += a["G"][j - 1][ev - 1]
            if st == "raise":
                out.append(entry(op, o, j, 0, cls, "raise", 0, [], 0, ob["sd"], p0, ob["pos"]))
            else:
                out.append(entry(op, o, j, 0, cls, "ok", 0, tab, sm, ob["sd"], p0, ob["pos"]))
    return out


def chain_shape(a, script, upto):
    """Chain (as a string of m / c) of every object after the first `upto` calls."""
    chains = [""]
    for s in script[:upto]:
        if s["op"] == "new":
            chains.append("")
        elif s["op"] == "marg":
            chains.append(chains[s["o"] - 1] + "m")
        elif s["op"] == "cond":
            chains.append(chains[s["o"] - 1] + "c")
    return chains


# --------------------------------------------------------------------------------------------
# the stochastic functions handed to the real class
# --------------------------------------------------------------------------------------------
def _uniform(rng, how):
    if how == "random":
        return rng.random()
    if how == "getrandbits":
        return rng.getrandbits(64)
    return rng.randrange(10 ** 18)


class Scripted:
    """`stochastic_function` for pipeline A: draws ONE number from the generator it is given and looks it up in
    the table {number drawn at position i by random.Random(seed_s)  ->  event i of the scripted stream s}."""

    def __init__(self, seeds, streams, labels, how, overrun=8):
        self.how, self.labels, self.streams = how, labels, streams
        self.table = {}
        for sid, (seed, evs) in enumerate(zip(seeds, streams)):
            g = random.Random(seed)
            for i in range(len(evs) + overrun):
                u = _uniform(g, how)
                if u in self.table:
                    raise TLCFailure("two seeds of a case produce the same uniform number: choose other seeds")
                self.table[u] = (sid, i)
        self.calls = []

    def __call__(self, rng):
        sid, i = self.table.get(_uniform(rng, self.how), (None, None))
        self.calls.append((rng, sid, i))
        if sid is None:
            return FOREIGN
        if i >= len(self.streams[sid]):
            return OVERRUN
        return self.labels[self.streams[sid][i] - 1]


def _thirds(rng, K):
    v = rng.random()
    return 0 if v < .5 else (1 if v < .75 else 2)


def _dice(rng, K):
    return rng.randint(0, 2) + rng.randint(0, 2)


def _shuffle(rng, K):
    xs = list(range(K))
    rng.shuffle(xs)
    return xs[0]


def _skew(rng, K):
    return min(K - 1, int(rng.expovariate(1.2)))


# name -> (function(rng, K) -> 0-based base event, K or None for "any K")
REAL_SF = {
    "thirds": (_thirds, 3),
    "randint": (lambda rng, K: rng.randint(0, K - 1), None),
    "dice": (_dice, 5),
    "choice": (lambda rng, K: rng.choice(range(K)), None),
    "shuffle": (_shuffle, None),
    "skew": (_skew, None),
    "AABC": (lambda rng, K: (0, 0, 1, 2)[rng.randint(0, 3)], 3),
}


class RealSF:
    """`stochastic_function` for pipeline B: a genuine random function of the generator; every call is logged."""

    def __init__(self, name, K, labels):
        self.fn, self.K, self.labels = REAL_SF[name][0], K, labels
        self.calls = []

    def __call__(self, rng):
        i = self.fn(rng, self.K)
        self.calls.append((rng, None, i + 1))
        return self.labels[i]


def reference_streams(name, K, seeds):
    """The streams of pipeline B, computed without the class under test."""
    fn = REAL_SF[name][0]
    out = []
    for s in seeds:
        g = random.Random(s)
        out.append(Lazy(gen=(lambda g=g: fn(g, K) + 1)))
    return out


class _SubRandom(random.Random):
    pass


def make_ext(kind, seed):
    if kind == "module":
        random.seed(seed)
        return random
    if kind == "subclass":
        return _SubRandom(seed)
    return random.Random(seed)


# --------------------------------------------------------------------------------------------
# running the real class
# --------------------------------------------------------------------------------------------
def labels_of(conc, KE):
    pool = POOLS[conc["pool"]]
    return [pool[i] for i in conc["perm"]][:KE]


def run_real(a, conc, script, sf):
    """Execute the calls on msdm's ImplicitDistribution.  Returns one observation per call:
    {"st": none|ok|raise|error, "val": event label | [(label, p)..] | float, "exc": text, "draws": [(genkey, sid, idx)]}"""
    from msdm.core.distributions.distributions import ImplicitDistribution
    KE, n, GD = a["KE"], a["n"], a["GD"]
    labels = labels_of(conc, KE)
    where = {}
    for i, lab in enumerate(labels):
        where[lab] = i

    def idx(e):
        try:
            return where.get(e)
        except TypeError:
            return None

    def proj(j):
        tab = a["F"][j - 1]
        if conc["fstyle"] == "dict":
            d = {lab: labels[tab[i] - 1] for i, lab in enumerate(labels)}
            return lambda e: d.get(e, e) if idx(e) is not None else e
        return lambda e: labels[tab[idx(e)] - 1] if idx(e) is not None else e

    def pred(j):
        tab = a["P"][j - 1]
        if conc["pstyle"] == "int":
            return lambda e: tab[idx(e)] if idx(e) is not None else 0
        return lambda e: bool(tab[idx(e)]) if idx(e) is not None else False

    def real(j):
        tab = a["G"][j - 1]
        gs = conc["gstyle"]

        def g(e):
            i = idx(e)
            v = tab[i] if i is not None else 0
            if gs == "fraction":
                return Fraction(v, GD)
            if gs == "float" or GD != 1:
                return v / GD
            if gs == "bool" and v in (0, 1):
                return bool(v)
            return v
        return g
    seeds = conc["seeds"]
    exts = [make_ext(k, seeds[sd - 1]) for k, sd in zip(conc["xkinds"], a["xsd"])]
    if conc.get("ctor") == "positional":
        objs = [ImplicitDistribution(sf, n, seeds[0])]
    else:
        objs = [ImplicitDistribution(stochastic_function=sf, n_samples=n, _seed=seeds[0])]
    pend = {}
    gens = {}
    obs = []
    for s in script:
        op, o, j, x = s["op"], s["o"], s["j"], s["x"]
        mark = len(sf.calls)
        st, val, exc = "none", None, ""
        try:
            if op == "new":
                objs.append(ImplicitDistribution(sf, n_samples=n, _seed=seeds[j - 1]))
            elif op == "marg":
                objs.append(objs[o - 1].marginalize(proj(j)))
            elif op == "cond":
                objs.append(objs[o - 1].condition(pred(j)))
            elif op == "sample":
                val = objs[o - 1].sample() if conc.get("none_rng") != 1 else objs[o - 1].sample(rng=None)
                st = "ok"
            elif op == "samplex":
                val = objs[o - 1].sample(rng=exts[x - 1])
                st = "ok"
            elif op == "icall":
                pend[o] = objs[o - 1].items()
            elif op == "iiter":
                val = list(pend.pop(o))
                st = "ok"
            elif op == "expect":
                val = float(objs[o - 1].expectation(real(j)))
                st = "ok"
        except Exception as ex:      # noqa: BLE001 - every exception of the real code is an observation
            exc = f"{type(ex).__name__}: {ex}"
            if op in RESOPS and isinstance(ex, ValueError) and "No sample" in str(ex):
                st = "raise"
            elif op in RESOPS and not isinstance(ex, (TypeError, AttributeError, KeyError, IndexError, ZeroDivisionError)):
                st = "raise?"          # an exception, but not the documented one
            else:
                st = "error"
        draws = []
        for (g, sid, i) in sf.calls[mark:]:
            key = None
            for xi, xg in enumerate(exts):
                if g is xg:
                    key = f"x{xi + 1}"
            if key is None:
                if id(g) not in gens:
                    gens[id(g)] = (g, f"g{len(gens) + 1}")
                key = gens[id(g)][1]
            draws.append((key, sid, i))
        obs.append({"st": st, "val": val, "exc": exc, "draws": draws})
        if st == "error" and op not in RESOPS:
            break                  # a constructor failed: the objects of the script no longer exist
    return obs


def abstract_val(a, conc, op, ob):
    """Real result -> abstract value (events as 1-based integers, 0 = not an event of the case)."""
    labels = labels_of(conc, a["KE"])

    def ev(e):
        for i, lab in enumerate(labels):
            if type(lab) is type(e) and lab == e:
                return i + 1
        return 0
    if ob["st"] != "ok":
        return None
    if op in ("sample", "samplex"):
        return ev(ob["val"])
    if op == "iiter":
        return [(ev(e), p) for e, p in ob["val"]]
    return ob["val"]


# --------------------------------------------------------------------------------------------
# pipeline A: expected (TLC) vs observed (real)
# --------------------------------------------------------------------------------------------
def compare_call(a, conc, e, ob, owners):
    """-> (hard, soft): hard = (clause, text) when the observable result differs, soft = list of implementation
    shaped differences."""
    op, n, GD = e["op"], a["n"], a["GD"]
    soft = []
    if e["st"] == "none":
        if ob["st"] != "none":
            return ("raised", f"{METHOD[op]} raised {ob['exc']}"), soft
        if ob["draws"]:
            soft.append(("draws", f"{METHOD[op]} read {len(ob['draws'])} numbers from a generator"))
        return None, soft
    foreign = any(sid is None for _, sid, _ in ob["draws"]) if conc.get("sf") is None else False
    clause = "unseeded-or-foreign-generator" if foreign else None
    st = "raise" if ob["st"] == "raise?" else ob["st"]
    if st != e["st"]:
        what = (f"expected {'ValueError(No sample ..)' if e['st'] == 'raise' else 'a result'}, "
                f"got {ob['exc'] or 'a result: ' + repr(ob['val'])}")
        return (clause or ("raise-expected" if e["st"] == "raise" else "unexpected-exception"), what), soft
    if ob["st"] == "raise?":
        soft.append(("exception-class", ob["exc"]))
    val = abstract_val(a, conc, op, ob)
    hard = None
    if e["st"] == "ok":
        if op in ("sample", "samplex"):
            if val != e["ev"]:
                hard = (clause or "event", f"returned event {ob['val']!r} (#{val}), the stream gives #{e['ev']}")
        elif op == "iiter":
            exp = {ev: Fraction(c, n) for ev, c in zip(e["tab"]["ev"], e["tab"]["c"])}
            got = {}
            dup = False
            for ev, p in val:
                dup |= ev in got
                got[ev] = p
            bad = dup or set(got) != set(exp) or any(abs(got[k] - float(exp[k])) > TOL for k in exp)
            if bad:
                hard = (clause or "table", f"items() = {ob['val']!r}, the frequency table is "
                        f"{ {k: str(v) for k, v in exp.items()} } (events by index)")
            elif [ev for ev, _ in val] != e["tab"]["ev"]:
                soft.append(("order", "items() not in first-occurrence order"))
        else:
            exact = Fraction(e["sum"], n * GD)
            if not abs(val - float(exact)) <= TOL * max(1.0, abs(float(exact))):
                hard = (clause or "mean", f"expectation() = {val!r}, the sample mean is {exact}")
    # which generator was read, and how far
    if conc.get("sf") is None:
        want = [(e["gsd"] - 1, i) for i in range(e["p0"], e["p1"])]
        got = [(sid, i) for _, sid, i in ob["draws"]]
        if got != want:
            soft.append(("draws", f"read {got[:6]}.. expected positions {e['p0']}..{e['p1'] - 1} of stream {e['gsd']}"))
    else:
        if len(ob["draws"]) != e["p1"] - e["p0"]:
            soft.append(("draws", f"{len(ob['draws'])} calls of the stochastic function, expected {e['p1'] - e['p0']}"))
    keys = {k for k, _, _ in ob["draws"]}
    if op == "samplex":
        if keys - {f"x{e['x']}"}:
            if hard is None:
                hard = ("given-generator-not-used", f"sample(rng=g) read {sorted(keys)} instead of the given generator")
    elif keys:
        if any(k.startswith("x") for k in keys):
            soft.append(("generator", f"{METHOD[op]} read an external generator {sorted(keys)}"))
        for k in keys:
            owners.setdefault(k, set()).add(e["o"])
            if len(owners[k]) > 1:
                soft.append(("generator", f"generator {k} is shared by objects {sorted(owners[k])}"))
    return hard, soft


def signature(a, script, i, e, clause):
    shape = chain_shape(a, script, i)[e["o"] - 1] or "root"
    return f"X02:ImplicitDistribution.{METHOD[e['op']]}:{shape}/{e['cls'] or 'ctor'}:{clause}"


def drift_once(ctx, step, key, detail):
    seen = ctx.extra.setdefault("_drift_seen", set())
    ctx.count(f"drift:{step}:{key}")
    if (step, key) in seen:
        return
    seen.add((step, key))
    ctx.drift(step, detail)


def case_json(kind, a, conc, script):
    return {"kind": kind, "abs": {k: a[k] for k in ("n", "K", "KE", "GD", "F", "P", "G", "xsd", "lazy")},
            "streams": [list(s) for s in a["streams"]], "conc": conc, "script": script}


def judge_behaviour(ctx, kind, a, conc, script, entries, hooks=None):
    """Replay one behaviour (streams a["streams"], calls `script`, expected completed calls `entries`) on the real
    class, twice (equally seeded, the second time under another state of the global generators)."""
    hooks = hooks or {}
    labels = labels_of(conc, a["KE"])
    streams = a["streams"]
    if hooks.get("tamper_stream"):
        streams = hooks["tamper_stream"](streams, entries)
    runs = []
    for rep in range(2):
        random.seed(f"{digest(script)}-{rep}")
        sf = Scripted(conc["seeds"], streams, labels, conc["draw"])
        runs.append(run_real(a, conc, script, sf))
    obs = runs[0]
    if hooks.get("corrupt"):
        hooks["corrupt"](obs, entries)
    ctx.evaluations += sum(1 for s in script if s["op"] in RESOPS) * 2
    case = case_json(kind, a, conc, script)
    owners = {}
    ok = True
    for i, e in enumerate(entries):
        if i >= len(obs):
            break
        hard, soft = compare_call(a, conc, e, obs[i], owners)
        if hard is not None:
            ok = False
            clause, text = hard
            if e["cls"] in ("fresh", "chain", "") or clause in ("given-generator-not-used",):
                ctx.violation(signature(a, script, i, e, clause),
                              f"call {i + 1} ({METHOD[e['op']]} on object {e['o']}, n_samples={a['n']}): {text}", case)
            else:
                drift_once(ctx, f"ImplicitDistribution.{METHOD[e['op']]}", f"{e['cls']}:{clause}",
                           {"what": text, "class": e["cls"], "case": case})
            break
        for key, text in soft:
            drift_once(ctx, f"ImplicitDistribution.{METHOD[e['op']]}", key, {"what": text, "case": case})
    if ok:
        # two equally seeded instances agree (values only)
        a_vals = [(o["st"], repr(o["val"])) for o in runs[0]]
        b_vals = [(o["st"], repr(o["val"])) for o in runs[1]]
        if not hooks.get("corrupt") and a_vals != b_vals:
            i = next(k for k in range(len(a_vals)) if a_vals[k] != b_vals[k])
            ok = False
            ctx.violation(signature(a, script, i, entries[i], "equally-seeded-instances-disagree"),
                          f"two equally seeded constructions disagree at call {i + 1}: {a_vals[i]} vs {b_vals[i]}", case)
    if ok:
        ctx.validated += 1
        for i, e in enumerate(entries):
            if e["op"] in RESOPS:
                ctx.count(f"calls:{e['op']}:{e['cls']}:{e['st']}")
                seg = streams[e["gsd"] - 1][e["p0"]:e["p1"]]
                if e["st"] == "raise" or len(set(seg)) >= 2:
                    ctx.nontrivial(f"{digest([a['streams'], script[:i + 1], a['F'], a['P'], a['G'], a['n']])}")
    return ok


def entries_equal(t, p):
    keys = ("op", "o", "j", "x", "cls", "st", "ev", "sum", "gsd", "p0", "p1")
    return all(t[k] == p[k] for k in keys) and list(t["tab"]["ev"]) == p["tab"]["ev"] and list(t["tab"]["c"]) == p["tab"]["c"]


def crosscheck(a, script, hist, exact, what):
    """TLA+ machine vs the python oracle: a disagreement is a machinery failure."""
    exp = o_run(a, [Lazy(fixed=s) for s in a["streams"]], script)
    if exp is None or len(exp) != len(hist) or not all(entries_equal(t, p) for t, p in zip(hist, exp)):
        raise TLCFailure(f"TLA+ reference machine and the python oracle disagree on {what}: {hist} vs {exp}")
    for e, x in zip(exp, exact):
        pr = [Fraction(c, a["n"]) for c in e["tab"]["c"]]
        if [Fraction(q[0], q[1]) for q in x["pr"]] != pr or Fraction(x["mean"][0], x["mean"][1]) != Fraction(e["sum"], a["n"] * a["GD"]):
            raise TLCFailure(f"TLA+ exact rationals and the python oracle disagree on {what}")


def script_of_hist(hist):
    return [{"op": h["op"], "o": 0 if h["op"] == "new" else h["o"], "j": h["j"], "x": h["x"]} for h in hist]


# --------------------------------------------------------------------------------------------
# families
# --------------------------------------------------------------------------------------------
def fam(K, n, L, L2, maxobj, ops, *, maxchain=2, lazy=0, depth=99, F=None, P=None, G=None, xsd=(2,), GD=1):
    F = F if F is not None else [[2, 1] if K == 2 else [2, 3, 1]]
    P = P if P is not None else [[1, 0, 0][:K]]
    G = G if G is not None else [[1, 3, 7][:K]]
    return dict(n=n, K=K, KE=K, GD=GD, enum=1, Ls=[L, L2], streams=[], xsd=list(xsd), maxobj=maxobj,
                maxchain=maxchain, F=F, P=P, G=G, script=[], obs=[], tag="", lazy=lazy, depth=depth, ops=list(ops))


def mc_families(tier):
    root = ["sample", "samplex", "icall", "iiter", "expect"]
    fams = [
        # a root alone: own and given generator, items, expectation, every stream over 3 events
        ("root K3 n2", fam(3, 2, 4, 1, 1, root, G=[[1, 3, 7]], GD=2)),
        ("root K2 n3", fam(2, 3, 6, 1, 1, ["sample", "icall", "iiter", "expect"], xsd=())),
        ("root n1", fam(2, 1, 3, 2, 1, root)),
        # one derived object: marginalize / condition created before or after the parent was read
        ("derived K2 n2", fam(2, 2, 5, 1, 2, ["marg", "cond", "sample", "icall", "iiter", "expect"], xsd=(), depth=5)),
        ("cond K2 n3", fam(2, 3, 6, 1, 2, ["cond", "sample", "icall", "iiter"], xsd=(), depth=5)),
        ("cond given generator", fam(2, 2, 2, 4, 2, ["cond", "marg", "samplex"], xsd=(2,), depth=5)),
        # two roots, equal and different seeds
        ("two roots", fam(2, 2, 4, 2, 2, ["new", "sample", "icall", "iiter"], xsd=(), depth=6)),
        # nested chains
        ("nested", fam(2, 2, 5, 1, 3, ["marg", "cond", "sample", "icall", "iiter"], xsd=(), depth=4,
                       F=[[2, 1]], P=[[1, 0]])),
        # deferred items()
        ("lazy items", fam(2, 2, 5, 1, 1, ["sample", "icall", "iiter", "expect"], lazy=1, xsd=(), depth=6)),
    ]
    if tier == "thorough":
        fams += [
            ("root K3 n2 long", fam(3, 2, 5, 2, 1, root)),
            ("derived K2 n2 long", fam(2, 2, 6, 1, 2, ["marg", "cond", "sample", "icall", "iiter", "expect"], xsd=())),
            ("derived K3 n2", fam(3, 2, 5, 1, 2, ["marg", "cond", "sample", "icall", "iiter"], xsd=(), depth=5,
                                  F=[[1, 1, 2]], P=[[0, 1, 1]])),
            ("two roots ext", fam(2, 2, 4, 2, 2, ["new", "sample", "samplex", "icall", "iiter"])),
            ("nested n3", fam(2, 3, 7, 1, 3, ["cond", "sample", "icall", "iiter"], xsd=(), depth=4, P=[[1, 0], [0, 1]])),
            ("lazy derived", fam(2, 2, 5, 1, 2, ["cond", "sample", "icall", "iiter"], lazy=1, xsd=(), depth=6)),
        ]
    return fams


def conc_for(rng, a, *, sf=None):
    """Concrete representation of an abstract case: labels, seeds, generator kinds, function styles."""
    nsd = a.get("nsd") or max(len(a.get("Ls", [])), len(a.get("streams", [])))
    pool = rng.choice(sorted(POOLS))
    seeds = rng.sample(SEEDS, nsd)
    if rng.random() < 0.5 and 0 not in seeds:
        seeds[rng.randrange(nsd)] = 0           # the seed that is falsy
    kinds = []
    for _ in a["xsd"]:
        k = rng.choice(XKINDS)
        if k == "module" and "module" in kinds:
            k = "Random"
        kinds.append(k)
    g01 = all(v in (0, 1) for row in a["G"] for v in row)
    return {"pool": pool, "perm": rng.sample(range(6), 6), "seeds": seeds, "xkinds": kinds,
            "draw": rng.choice(DRAWS), "gstyle": rng.choice(["int", "float", "fraction"] + (["bool"] if g01 else [])),
            "pstyle": rng.choice(["bool", "int"]), "fstyle": rng.choice(["dict", "lambda"]),
            "ctor": rng.choice(["keyword", "positional"]), "none_rng": rng.choice([0, 1]), "sf": sf}


def rand_script(rng, a, length, lazy):
    """A random valid call sequence (the bookkeeping mirrors the guards of the machine)."""
    chains = [0]
    nsd = a["nsd"]
    pend = None
    script = []
    while len(script) < length:
        if pend is not None and (not lazy or rng.random() < 0.4):
            script.append({"op": "iiter", "o": pend, "j": 0, "x": 0})
            pend = None
            continue
        op = rng.choice(["marg", "cond", "cond", "sample", "sample", "samplex", "icall", "icall", "expect", "new"])
        o = rng.randrange(len(chains)) + 1
        if len(script) > 1 and rng.random() < 0.6:
            o = len(chains)                     # prefer the newest object
        if op == "new":
            if len(chains) >= 5:
                continue
            script.append({"op": op, "o": 0, "j": rng.randint(1, nsd), "x": 0})
            chains.append(0)
        elif op in ("marg", "cond"):
            if len(chains) >= 5 or chains[o - 1] >= 3:
                continue
            script.append({"op": op, "o": o, "j": rng.randint(1, len(a["F"] if op == "marg" else a["P"])), "x": 0})
            chains.append(chains[o - 1] + 1)
        elif op == "samplex":
            if not a["xsd"]:
                continue
            script.append({"op": op, "o": o, "j": 0, "x": rng.randint(1, len(a["xsd"]))})
        elif op == "icall":
            if pend is not None:
                continue
            script.append({"op": op, "o": o, "j": 0, "x": 0})
            pend = o
        elif op == "expect":
            script.append({"op": op, "o": o, "j": rng.randint(1, len(a["G"])), "x": 0})
        else:
            script.append({"op": op, "o": o, "j": 0, "x": 0})
    if pend is not None:
        script.append({"op": "iiter", "o": pend, "j": 0, "x": 0})
    return script


def rand_abs(rng, *, big=False, K=None):
    n = rng.choice([1, 2, 2, 3, 3, 4, 5]) if not big else rng.choice([3, 5, 8, 12])
    K = K or rng.choice([2, 3, 3, 4])
    KE = min(6, K + rng.choice([0, 1, 2]))
    GD = rng.choice([1, 1, 2, 4])
    F = [[rng.randint(1, KE) for _ in range(KE)] for _ in range(2)]
    P = [[rng.choice([0, 1]) for _ in range(KE)] for _ in range(3)]
    rare = rng.randrange(K)
    P[rng.randrange(3)] = [1 if i == rare else 0 for i in range(KE)]                      # a rare event
    if rng.random() < 0.3:
        P[rng.randrange(3)] = [0] * KE                                                    # never satisfied: always raises
    G = [[rng.randint(-4, 8) for _ in range(KE)], [rng.choice([0, 1]) for _ in range(KE)]]
    if rng.random() < 0.25:
        G = [[rng.choice([0, 1]) for _ in range(KE)] for _ in range(2)]
        GD = 1
    nsd = rng.choice([1, 2, 2, 3])
    xsd = [rng.randint(1, nsd) for _ in range(rng.choice([0, 1, 1, 2]))]
    return dict(n=n, K=K, KE=KE, GD=GD, enum=0, Ls=[], streams=[], xsd=xsd, maxobj=9, maxchain=9, F=F, P=P, G=G,
                script=[], obs=[], tag="", lazy=1, depth=99, ops=ALLOPS, nsd=nsd)


def make_script_case(rng, tag):
    """A sampled case for mode "script": streams are drawn while the oracle reads them."""
    for _ in range(50):
        a = rand_abs(rng)
        lazy = rng.random() < 0.3
        a["script"] = rand_script(rng, a, rng.randint(4, 9), lazy)
        w = [rng.choice([1, 1, 2, 5]) for _ in range(a["K"])]
        lz = [Lazy(gen=(lambda: rng.choices(range(1, a["K"] + 1), weights=w)[0])) for _ in range(a["nsd"])]
        exp = o_run(a, lz, a["script"])
        if max(len(s.buf) for s in lz) > 400:
            continue
        a["streams"] = [list(s.buf) for s in lz]
        a["tag"] = tag
        return a, exp
    raise TLCFailure("could not sample a script case with short streams")


def make_trace_case(rng, tag):
    """A case for pipeline B: a real stochastic function, real seeds, the streams are its reference streams."""
    for _ in range(50):
        name = rng.choice(sorted(REAL_SF))
        K = REAL_SF[name][1] or rng.choice([2, 3, 4])
        a = rand_abs(rng, big=True, K=K)
        lazy = rng.random() < 0.3
        a["script"] = rand_script(rng, a, rng.randint(4, 8), lazy)
        conc = conc_for(rng, a, sf=name)
        lz = reference_streams(name, K, conc["seeds"])
        exp = o_run(a, lz, a["script"])
        if max(len(s.buf) for s in lz) > 1500:
            continue
        a["streams"] = [list(s.buf) for s in lz]
        a["tag"] = tag
        return a, conc, exp
    raise TLCFailure("could not sample a trace case with short streams")


# --------------------------------------------------------------------------------------------
# the three TLC passes
# --------------------------------------------------------------------------------------------
def tlc_abs(a):
    return {k: v for k, v in a.items() if k != "nsd"}


def check_design(res, what):
    bad = [v for v in res.violated if v in LAWS or v == "Frame"]
    if bad:
        raise TLCFailure(f"design-level invariant violated in {MODULE} ({what}): {sorted(set(bad))}\n"
                         + (res.traces[0][:3000] if res.traces else ""))


def run_mc(ctx, fams, hooks=None, limit=None):
    """fams: list of (name, family).  One TLC run over all of them; every emitted behaviour (or a sample of
    `limit` per family) is cross-checked against the python oracle and replayed on the real class."""
    res = run_tlc(ctx.workdir / "mc", MODULE, CFG, files={"batch.json": [tlc_abs(a) for _, a in fams]},
                  env={"BATCH_FILE": "batch.json", "MODE": "mc"}, coverage=False)
    ctx.add_tlc(res, "mc [" + ", ".join(n for n, _ in fams) + "]: every call sequence over every stream of each family, "
                "laws as invariants, frame conditions as action property")
    check_design(res, "mc")
    ctx.count("mc_behaviours_emitted", len(res.records))
    total = 0
    for ci, (name, a) in enumerate(fams):
        rng = random.Random(f"{ctx.seed}-{name}")
        recs = sorted((r for r in res.records if r["cid"] == ci + 1), key=lambda r: (r["streams"], len(r["hist"]), str(r["hist"])))
        if not recs:
            raise TLCFailure(f"mc family {name}: TLC emitted no behaviour")
        ctx.count(f"mc_emitted[{name}]", len(recs))
        if limit is not None and len(recs) > limit:
            ctx.skip("mc behaviours beyond the per-family replay budget (sampled)", len(recs) - limit)
            recs = rng.sample(recs, limit)
        for r in recs:
            b = dict(a, streams=[list(s) for s in r["streams"]], enum=0)
            script = script_of_hist(r["hist"])
            crosscheck(b, script, r["hist"], r["exact"], f"family {name}")
            ctx.count("oracle_crosschecks")
            conc = conc_for(random.Random(digest([name, r["streams"], script])), b)
            judge_behaviour(ctx, "A", b, conc, script, r["hist"], hooks)
        total += len(recs)
        r = recs[len(recs) // 2]
        if ci in (3, 7):
            ctx.sample({"family": name, "streams": r["streams"], "calls": [[h["op"], h["o"], h["j"], h["x"]] for h in r["hist"]],
                        "expected_last": {k: r["hist"][-1][k] for k in ("st", "ev", "tab", "sum", "cls", "p0", "p1")}})
    return total


def run_scripts(ctx, cases, hooks=None):
    """cases: list of (abstract case with streams and script, oracle entries)."""
    res = run_tlc(ctx.workdir / "script", MODULE, CFG, files={"batch.json": [tlc_abs(a) for a, _ in cases]},
                  env={"BATCH_FILE": "batch.json", "MODE": "script"}, coverage=(ctx.tier == "thorough" and len(cases) > 1))
    ctx.add_tlc(res, "script: sampled call sequences (longer chains, several seeds, deferred items), laws as invariants")
    check_design(res, "script")
    by = {r["cid"]: r for r in res.records}
    for i, (a, exp) in enumerate(cases):
        r = by.get(i + 1)
        if r is None or r["verdict"] != "done":
            raise TLCFailure(f"script case {i + 1}: TLC verdict {r and r['verdict']} (stream too short or script not enabled)")
        crosscheck(a, a["script"], r["hist"], r["exact"], f"script case {a['tag']}")
        ctx.count("oracle_crosschecks")
        conc = conc_for(random.Random(digest([a["tag"], a["streams"], a["script"]])), a)
        judge_behaviour(ctx, "A", a, conc, a["script"], r["hist"], hooks)
    if cases:
        a = cases[0][0]
        ctx.sample({"script_case": {k: a[k] for k in ("n", "K", "KE", "F", "P", "G", "xsd")},
                    "streams": [s[:12] for s in a["streams"]], "calls": [[s["op"], s["o"], s["j"], s["x"]] for s in a["script"]]})


def record_trace(a, conc):
    """Run the real class with a real stochastic function; quantise what it returned (pipeline B)."""
    labels = labels_of(conc, a["KE"])
    sf = RealSF(conc["sf"], a["K"], labels)
    random.seed(digest(a["script"]))
    real = run_real(a, conc, a["script"], sf)
    obs = []
    n, GD = a["n"], a["GD"]
    for s, ob in zip(a["script"], real):
        rec = {"st": "raise" if ob["st"] == "raise?" else ob["st"], "ev": 0, "tabev": [], "tabc": [], "sum": 0,
               "nd": len(ob["draws"])}
        val = abstract_val(a, conc, s["op"], ob)
        if ob["st"] == "ok":
            if s["op"] in ("sample", "samplex"):
                rec["ev"] = val
            elif s["op"] == "iiter":
                rec["tabev"] = [e for e, _ in val]
                rec["tabc"] = [int(round(p * n * QS)) for _, p in val]
            else:
                q = val * n * GD * QS
                rec["sum"] = int(round(q)) if abs(q) < 2 ** 30 else 2 ** 30
        obs.append(rec)
    while len(obs) < len(a["script"]):
        obs.append({"st": "error", "ev": 0, "tabev": [], "tabc": [], "sum": 0, "nd": 0})
    return obs, real, sf


def run_traces(ctx, cases, hooks=None):
    """cases: list of (abstract case, conc, oracle entries)."""
    hooks = hooks or {}
    batch = []
    reals = []
    for a, conc, exp in cases:
        obs, real, sf = record_trace(a, conc)
        ctx.evaluations += sum(1 for s in a["script"] if s["op"] in RESOPS)
        # binding of the recorded run to the seeds: what the stochastic function returned, per generator, is a
        # prefix-consistent read of the reference stream (checked by TLC through the results; counted here)
        b = dict(tlc_abs(a), obs=obs)
        batch.append(b)
        reals.append(real)
    if hooks.get("tamper_trace"):
        hooks["tamper_trace"](batch)
    res = run_tlc(ctx.workdir / "trace", MODULE, CFG, files={"batch.json": batch},
                  env={"BATCH_FILE": "batch.json", "MODE": "trace"})
    ctx.add_tlc(res, "trace: recorded seeded runs of the real class with real stochastic functions, every result compared in TLC")
    check_design(res, "trace")
    by = {r["cid"]: r for r in res.records}
    for i, (a, conc, exp) in enumerate(cases):
        r = by.get(i + 1)
        if r is None or r["verdict"] == "cut":
            raise TLCFailure(f"trace {a['tag']}: no verdict / reference stream too short ({r and r['verdict']})")
        case = case_json("B", a, conc, batch[i]["script"])
        if r["verdict"] == "done":
            if not hooks.get("tamper_trace") and (exp is None or not entries_equal(r["exp"], exp[-1])):
                raise TLCFailure(f"trace {a['tag']}: TLA+ machine and python oracle disagree on the last call")
            ctx.validated += 1
            ctx.count("traces_accepted")
            for e in exp or []:
                if e["op"] in RESOPS:
                    ctx.count(f"calls:{e['op']}:{e['cls']}:{e['st']}")
                    if e["st"] == "raise" or len(set(a["streams"][e["gsd"] - 1][e["p0"]:e["p1"]])) >= 2:
                        ctx.nontrivial(f"B:{digest([a['streams'], a['script'], a['F'], a['P'], a['G'], a['n'], e['p0'], e['o']])}")
            for k, note in r["notes"]:
                s = batch[i]["script"][k - 1]
                drift_once(ctx, f"ImplicitDistribution.{METHOD[s['op']]}", note,
                           {"what": f"recorded run differs in {note} at call {k}", "case": case})
            continue
        k = r["at"]
        e = r["exp"]
        s = batch[i]["script"][k - 1]
        ob = reals[i][k - 1] if k - 1 < len(reals[i]) else {"val": None, "exc": "", "st": "?"}
        clause = {"st": "raise-expected" if e["st"] == "raise" else "unexpected-exception", "ev": "event",
                  "tab": "table", "sum": "mean"}[r["why"]]
        text = (f"call {k} ({METHOD[s['op']]} on object {s['o']}, n_samples={a['n']}, stochastic function {conc['sf']}, "
                f"seed {conc['seeds'][e['gsd'] - 1]!r}): real result {ob['exc'] or ob['val']!r} [{batch[i]['obs'][k - 1]}], "
                f"the machine expects st={e['st']} ev={e['ev']} tab={e['tab']} sum={e['sum']} reading positions {e['p0']}..{e['p1']}")
        if e["cls"] in ("fresh", "chain", ""):
            ctx.violation(signature(a, batch[i]["script"], k - 1, e, clause), text, case)
        else:
            drift_once(ctx, f"ImplicitDistribution.{METHOD[s['op']]}", f"{e['cls']}:{clause}",
                       {"what": text, "class": e["cls"], "case": case})
    if cases:
        a, conc, _ = cases[0]
        ctx.sample({"trace_case": {"sf": conc["sf"], "seeds": [repr(s) for s in conc["seeds"]], "n": a["n"], "pool": conc["pool"]},
                    "calls": [[s["op"], s["o"], s["j"], s["x"]] for s in a["script"]], "obs": batch[0]["obs"][:4]})


# --------------------------------------------------------------------------------------------
def run(ctx):
    rng = random.Random(ctx.seed * 7919 + 2)
    ctx.rule = ("behaviour = (streams, call sequence) replayed on the real ImplicitDistribution with every compared "
                "result equal; non-trivial = (behaviour prefix ending in a result call) whose call read >= 2 distinct "
                "stream events or raised the rejection error; MC families: all streams over 2-3 events x all call "
                "sequences (root / derived / nested / two roots / given generator / deferred items) within the "
                "stream length and depth bounds, one behaviour per distinct machine state")
    ctx.assumptions = [
        "random.Random(seed) is the generator of the statement; its stream is reproduced by the harness with the same class",
        "TLC evaluates the TLA+ operators correctly (every emitted behaviour is cross-checked against a python oracle)",
        "floats: probabilities count/n and means sum/(n*GD) with GD in {1,2,4} compared with 1e-9 slack (exact dyadic sums)",
        "n_samples >= 1; a seed is given (seed None reads OS entropy: not reproducible, not modelled)",
        "MC emits one behaviour per distinct machine state (the first path TLC finds), not every path"]
    quick = ctx.tier == "quick"
    limit = 6000 if quick else 60000
    run_mc(ctx, mc_families(ctx.tier), limit=limit)
    nscript = 400 if quick else 4000
    cases = [make_script_case(rng, f"s{i}") for i in range(nscript)]
    for k in range(0, len(cases), 500):
        run_scripts(ctx, cases[k:k + 500])
    ntrace = 150 if quick else 1500
    tcases = [make_trace_case(rng, f"t{i}") for i in range(ntrace)]
    for k in range(0, len(tcases), 300):
        run_traces(ctx, tcases[k:k + 300])
    ctx.extra.pop("_drift_seen", None)


def replay(ctx, case):
    a = dict(case["abs"], enum=0, Ls=[], streams=case["streams"], maxobj=9, maxchain=9, script=case["script"], obs=[],
             tag="replay", depth=99, ops=ALLOPS, nsd=len(case["streams"]))
    conc = case["conc"]
    if case["kind"] == "B":
        # the reference streams are recomputed from the seeds, not trusted from the file
        lz = reference_streams(conc["sf"], a["K"], conc["seeds"])
        exp = o_run(a, lz, a["script"])
        a["streams"] = [list(s.buf) for s in lz]
        run_traces(ctx, [(a, conc, exp)])
    else:
        run_scripts_with_conc(ctx, a, conc)
    ctx.extra.pop("_drift_seen", None)


def run_scripts_with_conc(ctx, a, conc):
    res = run_tlc(ctx.workdir / "script", MODULE, CFG, files={"batch.json": [tlc_abs(a)]},
                  env={"BATCH_FILE": "batch.json", "MODE": "script"})
    ctx.add_tlc(res, "script: the stored case")
    check_design(res, "replay")
    r = res.records[0]
    if r["verdict"] != "done":
        raise TLCFailure(f"replay: TLC verdict {r['verdict']}")
    crosscheck(a, a["script"], r["hist"], r["exact"], "replay")
    judge_behaviour(ctx, "A", a, conc, a["script"], r["hist"])


def selftest(ctx):
    """Binding demonstration.  (A) corrupt one probability / one sampled event returned by the real code;
    (A') hand msdm a stream that differs in one element from the one TLC saw; (B) corrupt one recorded field
    of a trace and drop one recorded call.  Each must be reported."""
    ok = True
    name, a = mc_families("quick")[3]

    def run_with(hooks, pipeline="mc"):
        before = len(ctx.violations)
        if pipeline == "mc":
            run_mc(ctx, [(name, a)], hooks=hooks, limit=400)
        return len(ctx.violations) - before
    st = {"p": 0, "e": 0}

    def corrupt_prob(obs, entries):
        for ob, e in zip(obs, entries):
            if not st["p"] and e["op"] == "iiter" and e["st"] == "ok" and e["cls"] == "fresh" and len(ob["val"] or []) >= 2:
                ob["val"][0] = (ob["val"][0][0], ob["val"][0][1] + 1e-6)
                st["p"] = 1
    got = run_with({"corrupt": corrupt_prob})
    a_ok = st["p"] == 1 and got == 1
    print(f"  (selftest A) one probability of items() changed by 1e-6: {'detected' if a_ok else 'NOT detected'}")
    ok &= a_ok

    def corrupt_event(obs, entries):
        for ob, e in zip(obs, entries):
            if not st["e"] and e["op"] == "sample" and e["st"] == "ok" and e["cls"] == "chain":
                labs = POOLS["str"] + POOLS["int"]
                ob["val"] = next(x for x in labs if x != ob["val"])
                st["e"] = 1
    got = run_with({"corrupt": corrupt_event})
    a2_ok = st["e"] == 1 and got == 1
    print(f"  (selftest A) one event returned by sample() swapped: {'detected' if a2_ok else 'NOT detected'}")
    ok &= a2_ok
    st3 = {"n": 0}

    def tamper_stream(streams, entries):
        e = next((e for e in entries if e["op"] in RESOPS and e["cls"] == "fresh" and e["st"] == "ok" and e["gsd"] == 1
                  and not (e["op"] == "expect")), None)
        if e is None or st3["n"] >= 1:
            return streams
        st3["n"] += 1
        s = [list(x) for x in streams]
        i = e["p1"] - 1
        s[0][i] = 3 - s[0][i]              # K = 2: the other event
        return s
    got = run_with({"tamper_stream": tamper_stream})
    a3_ok = st3["n"] == 1 and got >= 1
    print(f"  (selftest A') one stream element handed to msdm differs from what TLC saw: {'detected' if a3_ok else 'NOT detected'}")
    ok &= a3_ok
    # (B)
    rng = random.Random(11)
    tcases = [make_trace_case(rng, f"t{i}") for i in range(40)]
    info = {}

    def tamper_trace(batch):
        for b in batch:
            exp = o_run(b, [Lazy(fixed=s) for s in b["streams"]], b["script"])
            sc = b["script"]
            for i, (s, ob, e) in enumerate(zip(sc, b["obs"], exp)):
                if "field" not in info and s["op"] == "iiter" and ob["st"] == "ok" and e["cls"] == "fresh" and len(ob["tabc"]) >= 2:
                    ob["tabc"][0] += QS
                    ob["tabc"][1] -= QS
                    info["field"] = b["tag"]
                    break
                # two consecutive sample() calls on the same object returning different events: drop the first
                if ("drop" not in info and info.get("field") != b["tag"] and i + 1 < len(sc) and s["op"] == "sample"
                        and sc[i + 1]["op"] == "sample" and sc[i + 1]["o"] == s["o"] and e["cls"] in ("fresh", "chain")
                        and e["st"] == "ok" and exp[i + 1]["st"] == "ok" and e["ev"] != exp[i + 1]["ev"]):
                    del sc[i]
                    del b["obs"][i]
                    info["drop"] = b["tag"]
                    break
    before = len(ctx.violations)
    run_traces(ctx, tcases, hooks={"tamper_trace": tamper_trace})
    sigs = [s for s, _, _ in ctx.violations[before:]]
    b_ok = "field" in info and "drop" in info and len(sigs) == 2
    print(f"  (selftest B) one recorded table corrupted / one recorded sample() call dropped: "
          f"{'detected' if b_ok else 'NOT detected'} {info} {sigs}")
    ok &= b_ok
    ctx.extra.pop("_drift_seen", None)
    return bool(ok)
