"""C07 - POMDP belief updates follow Bayes' rule and the belief MDP is consistent.

Pipeline A: cases (POMDP instance x initial beliefs x representation) -> TLC explores the two
reference machines of spec/C07_Belief.tla (every action/observation history of the filter, every
path of the belief MDP, to the depth bound of the case), checks the design invariants in every
state and prints, per state, what the real code has to return there -> the driver builds the same
POMDP in msdm, replays every behaviour step by step through the real code (feeding the real
outputs back in) and compares every returned object with the exact expectation.
"""
import math
import random
from fractions import Fraction as F

import numpy as np

from .. import gen
from .. import pomdp_build as pb
from ..core import digest
from ..tlc import run_tlc, TLCFailure

CFG = """INIT Init
NEXT Next
CHECK_DEADLOCK FALSE
INVARIANT Emit
INVARIANT FilterIsBayes
INVARIANT DictVecAgree
INVARIANT BeliefNormalised
INVARIANT ObsNormalised
INVARIANT BMDPNormalised
INVARIANT MeanIsPrediction
INVARIANT AbsorbingClosed
INVARIANT TableMatchesDefinitions
INVARIANT InstancesWellFormed
"""
DESIGN_INVS = ["FilterIsBayes", "DictVecAgree", "BeliefNormalised", "ObsNormalised", "BMDPNormalised",
               "MeanIsPrediction", "AbsorbingClosed", "TableMatchesDefinitions", "InstancesWellFormed"]

# direct algebraic results on <= 4 states with small dyadic / third entries, chains of <= 4 updates
# (DESIGN 5.1): each update costs a few ulp (1e-16) -> 1e-9 is 6 orders of magnitude of head room
TOL = 1e-9



def rel_close(x, exact):
    """Comparison of a probability that may be tiny (predictive probabilities ~1e-8 at tiny-mass beliefs).

    Derivation: every compared quantity is a sum of <= N*N products of three non-negative float64
    numbers (belief, transition, observation probability), each factor being the correctly rounded
    value of an exact rational or the output of such a computation: no cancellation, so the relative
    error is bounded by (factors + additions) * 2^-53 per filter step, < 50 * 1.2e-16 * 5 steps
    ~ 3e-14.  1e-9 relative leaves 4 orders of magnitude of head room; the absolute floor 1e-18 only
    matters when exact = 0, where a zero factor makes the float result exactly 0.0 (the smallest
    non-zero exact value of the family is > 1e-11)."""
    return abs(x - exact) <= 1e-9 * abs(exact) + 1e-18


def agree(x, y):
    """Two float results of the same exact quantity (each within rel_close of it)."""
    return abs(x - y) <= 2e-9 * max(abs(x), abs(y)) + 2e-18


LABELS = ["int", "str", "tuple", "frozendict", "mixed", "falsy"]
DISTS = ["dict", "dict_zeros", "det", "uniform"]
BREPS = ["returned", "zeros", "dict", "native"]
# how a Belief tuple (states, probs) is handed to the functions that accept one: as the library builds it
# (states = state_list), with the states in another order, or listing the supported states only
# what the model's is_absorbing(s) answers with: a Python bool, a numpy.bool_ (array-specified models, cf.
# from_matrices' absorbing_state_vec[...]) or a 0/1 integer - all of them legitimate truth values
ABS_REPS = ["bool", "npbool", "npbool", "int"]
TUPLE_REPS = ["canonical", "permuted", "permuted", "support"]


# --------------------------------------------------------------------------------------------
# case generation
# --------------------------------------------------------------------------------------------
def tree_depth(branch, budget, cap=4):
    d, size = 0, 1
    while d < cap and size + branch ** (d + 1) <= budget:
        d += 1
        size += branch ** d
    return max(d, 1)


def make_cases(rng, n, tier):
    budget = 130 if tier == "quick" else 450
    cases = []
    while len(cases) < n:
        k = len(cases)
        PD = rng.choice([2, 3, 4])
        OD = rng.choice([2, 3, 4])
        n_na = rng.choice([1, 2, 2, 3, 3])
        n_abs = rng.choice([0, 0, 1, 1, 2])
        if n_na + n_abs < 2:
            n_na = 2
        if n_na + n_abs > 4:
            n_abs = 1
        K = rng.choice([1, 2, 2, 3])
        NO = rng.choice([1, 2, 2, 3, 3])
        obs_kind = rng.choice(["random"] * 7 + ["single", "identity", "uninformative"])
        ghost = rng.random() < 0.25
        m = pb.rand_pomdp(rng, n_na=n_na, n_abs=n_abs, K=K, NO=NO, PD=PD, OD=OD,
                          ghost=ghost, ID=rng.choice([2, 3, 4]), obs_kind=obs_kind)
        m["GN"], m["GD"] = rng.choice([(1, 2), (9, 10), (1, 1)])
        m["alpha"] = [rng.randint(-2, 2) for _ in range(m["N"])]
        rep = dict(labels=rng.choice(LABELS), alabels=rng.choice(LABELS), olabels=rng.choice(LABELS),
                   explicit_list=rng.random() < 0.5, dist=rng.choice(DISTS), odist=rng.choice(DISTS),
                   outside=None, brep=rng.choice(BREPS), keyperm=False,
                   agrep=rng.choice(TUPLE_REPS), keyrep=rng.choice(TUPLE_REPS), statedep_actions=False,
                   declare_lists=rng.random() < 0.3, absrep=rng.choice(ABS_REPS))
        # state-dependent action sets: terminal (and a few other) states offer a subset of the actions
        if K >= 2 and rng.random() < 0.4:
            rep["statedep_actions"] = pb.restrict_actions(rng, m)
        if not rep["explicit_list"] and not gen.ghost_closed(m):
            rep["explicit_list"] = True     # ghost successors outside the inferred list: C06's business
        if not rep["explicit_list"] and rep["statedep_actions"]:
            r = gen.reach(m)
            if any(not any(m["avail"][s][a] for s in r) for a in range(K)):
                rep["explicit_list"] = True  # an action offered only at unreachable states: keep the action list complete
        # the shapes of DESIGN section 9 item 12: a zero-probability entry that is in no list
        if k % 25 == 7:
            rep["outside"] = "obs-zero"
        elif k % 25 == 19:
            rep["outside"] = "state-zero"
        listed = pb.listed_states(m, rep["explicit_list"])
        m["beliefs"] = pb.rand_beliefs(rng, m, listed, n_extra=2 if tier == "quick" else 3)
        branch = m["K"] * m["NO"]
        m["D"] = tree_depth(branch, budget)
        m["DB"] = min(m["D"], 3)
        m["machs"] = ["filter", "bmdp"]
        cases.append({"m": m, "rep": rep})
    # "tiny-mass" cases: a possible observation of probability <= 8e-9 (planted), depth 1, explicit lists,
    # no look-ahead table at the leaves (LL = 0) so that every product stays below 2^30
    n_tiny = max(8, n // 5)
    while len(cases) < n + n_tiny:
        PD, OD = rng.choice([2, 3, 4]), rng.choice([2, 3, 4])
        n_abs = rng.choice([0, 0, 1])
        m = pb.rand_pomdp(rng, n_na=rng.choice([2, 2, 3]), n_abs=n_abs,
                          K=rng.choice([1, 2, 3]), NO=rng.choice([2, 2, 3]), PD=PD, OD=OD, ghost=rng.random() < 0.3,
                          ID=rng.choice([2, 3, 4]), obs_kind="random")
        m["GN"], m["GD"] = rng.choice([(1, 2), (9, 10), (1, 1)])
        t, a, o, beliefs = pb.plant_rare_observation(rng, m)
        rep = dict(labels=rng.choice(LABELS), alabels=rng.choice(LABELS), olabels=rng.choice(LABELS),
                   explicit_list=True, dist=rng.choice(DISTS), odist=rng.choice(DISTS),
                   outside=None, brep=rng.choice(BREPS), keyperm=False,
                   agrep=rng.choice(TUPLE_REPS), keyrep=rng.choice(TUPLE_REPS), statedep_actions=False,
                   declare_lists=rng.random() < 0.3, absrep=rng.choice(ABS_REPS))
        m["alpha"] = [rng.randint(-2, 2) for _ in range(m["N"])]
        m["beliefs"] = [list(m["p0"])] + beliefs
        m["D"], m["DB"], m["LL"] = 1, 1, 0
        m["machs"] = ["filter", "bmdp"]
        m["planted"] = {"state": t, "action": a, "observation": o}
        cases.append({"m": m, "rep": rep})
    return cases


# --------------------------------------------------------------------------------------------
# helpers
# --------------------------------------------------------------------------------------------
def hkey(rec):
    if rec["mach"] == "filter":
        return tuple((e["a"], e["o"]) for e in rec["hist"])
    return tuple((e["a"], tuple(e["b"])) for e in rec["hist"])


def exact_belief(w):
    tot = sum(w)
    return [F(x, tot) for x in w] if tot else [F(0)] * len(w)


def shape_of(w, m):
    supp = [s for s, x in enumerate(w) if x > 0]
    if not supp:
        return "empty-belief"
    tag = "vertex" if len(supp) == 1 else ("zero-component" if len(supp) < len(w) else "interior")
    if any(m["abs"][s] for s in supp):
        tag += "+absorbing-mass"
    if min(w[s] for s in supp) * 10 ** 6 < sum(w):
        tag += "+tiny-mass"
    return tag


def rearrange(belief, mode, rng):
    """The same belief as a hand-made Belief tuple: states in another order / supported states only.
    The probabilities are the real ones (nothing is recomputed)."""
    from msdm.core.pomdp.tabularpomdp import Belief
    pairs = list(zip(belief.states, belief.probs))
    if mode == "canonical" or mode is None:
        return belief
    if mode == "support":
        pairs = [(s, pr) for s, pr in pairs if pr > 0] or pairs
    if len(pairs) > 1:
        k = rng.randrange(1, len(pairs))
        pairs = pairs[k:] + pairs[:k]              # a rotation is never the identity
        if len(pairs) > 2 and rng.random() < 0.5:
            pairs[0], pairs[1] = pairs[1], pairs[0]
    return Belief(tuple(s for s, _ in pairs), tuple(pr for _, pr in pairs))


class Judge:
    """Replays the behaviours of one case through the real code."""

    def __init__(self, ctx, idx, case, recs, tamper=None):
        self.ctx, self.idx, self.case, self.tamper = ctx, idx, case, tamper
        self.m, self.rep = case["m"], case["rep"]
        self.recs = recs            # (mach, b0, hkey) -> record
        self.ok = True
        self.vec_ok = True

    # ------------------------------------------------------------------ verdict helpers
    def fail(self, site, clause, shape, what, node=None):
        self.ok = False
        self.node_ok = False
        sig = f"C07:{site}:{clause}" + (f":{shape}" if shape else "")
        self.ctx.violation(sig, f"{site} {clause}: {what}"[:600],
                           {"case": self.case, "site": site, "clause": clause,
                            "node": None if node is None else {"mach": node["mach"], "b0": node["b0"], "hist": node["hist"]}})

    def call(self, site, shape, node, fn, *args):
        """Run real code; an exception on an in-scope input is a failure of the clause served by that site."""
        self.ctx.evaluations += 1
        try:
            out = fn(*args)
        except Exception as e:                               # noqa: BLE001
            self.fail(site, f"raised-{type(e).__name__}", shape, f"{type(e).__name__}: {e}"[:300], node)
            return None
        if self.tamper is not None:
            out = self.tamper(site, out)
        return out

    # ------------------------------------------------------------------ results are values
    def keep(self, site, obj, rec, shape):
        """Remember a returned object together with a snapshot of its value at return time: in the spec a
        result is a value, so no later operation may change it (checked after the whole case has been replayed)."""
        if isinstance(obj, np.ndarray):
            self.kept.append((site, obj, obj.copy(), rec, shape))
        elif isinstance(obj, dict):
            self.kept.append((site, obj, dict(obj), rec, shape))

    def verify_kept(self):
        seen = set()
        for site, obj, snap, rec, shape in self.kept:
            same = np.array_equal(obj, snap, equal_nan=True) if isinstance(obj, np.ndarray) else dict(obj) == snap
            if not same and (site, shape) not in seen:
                seen.add((site, shape))
                self.fail(site, "result-changed-by-a-later-call", shape,
                          f"returned {snap if not isinstance(snap, np.ndarray) else snap.tolist()} but the same object reads "
                          f"{obj.tolist() if isinstance(obj, np.ndarray) else dict(obj)} after later calls on the same POMDP", rec)
        for name, snap in self.matrix_snaps.items():
            try:
                cur = np.asarray(getattr(self.p, name))
            except Exception:                                   # noqa: BLE001
                continue
            if cur.shape != snap.shape or not np.array_equal(cur, snap):
                self.fail(name, "result-changed-by-a-later-call", None, f"{name} changed while the filter functions were used")
        self.ctx.count("returned_objects_rechecked_after_the_whole_case", len(self.kept))
        self.kept = []

    def probe_recompute(self, site, shape, rec, fn, *args):
        """Call, let the caller scribble over the returned object, call again with the same arguments: the
        second result must be the same value (a result must not be served from an object the caller owns)."""
        first = self.call(site, shape, rec, fn, *args)
        if first is None:
            return
        if isinstance(first, np.ndarray):
            snap = first.copy()
            if not first.flags.writeable:
                return
            first[...] = 7.0
        elif isinstance(first, dict):
            snap = dict(first)
            first.clear()
        else:
            return
        second = self.call(site, shape, rec, fn, *args)
        if second is None:
            return
        if isinstance(snap, np.ndarray):
            same = isinstance(second, np.ndarray) and second.shape == snap.shape and np.allclose(second, snap, rtol=1e-9, atol=1e-15, equal_nan=True)
        else:
            same = set(second.keys()) == set(snap.keys()) and all(abs(second[k] - snap[k]) <= 1e-9 * abs(snap[k]) + 1e-15 for k in snap)
        if not same:
            self.fail(site, "recomputed-after-the-caller-mutated-the-returned-object", shape,
                      f"first call returned {snap if not isinstance(snap, np.ndarray) else snap.tolist()}, the caller overwrote that "
                      f"object, the same call now returns {second.tolist() if isinstance(second, np.ndarray) else dict(second)}", rec)
        self.ctx.count("mutate_then_recompute_probes")

    # ------------------------------------------------------------------ set-up
    def setup(self):
        from msdm.core.pomdp import BeliefMDP
        from msdm.core.pomdp.policy import ValueBasedTabularPOMDPPolicy
        m, rep = self.m, self.rep
        rng = random.Random(digest(self.case))
        mb = self.case.get("m_build", m)         # selftest: a different instance is handed to msdm
        self.B = B = pb.build_pomdp(mb, rng=rng, **{k: v for k, v in rep.items() if k != "rng"})
        B.m = m
        p = self.p = B.pomdp
        absrep = rep.get("absrep", "bool")
        if absrep != "bool":        # before anything is cached on the object (reachability uses is_absorbing)
            flags = np.array([bool(x) for x in mb["abs"]])
            if absrep == "npbool":
                p.is_absorbing = lambda s, _f=flags, _B=B: _f[_B.sidx(s)]            # numpy.bool_
            else:
                p.is_absorbing = lambda s, _f=flags, _B=B: int(_f[_B.sidx(s)])       # 0 / 1
        self.node_ok = True
        shape = {"obs-zero": "zero-entry-outside-observation-list",
                 "state-zero": "zero-entry-outside-state-list", None: "regular"}[rep["outside"]]
        self.sl = self.call("state_list", shape, None, lambda: list(p.state_list))
        self.al = self.call("action_list", shape, None, lambda: list(p.action_list))
        if self.sl is None or self.al is None:
            return False
        if set(self.sl) != {B.slabel[s] for s in B.listed} or set(self.al) != set(B.alabel):
            # C06's clause (state list = reachable set); without it nothing here can be indexed
            self.ctx.skip("state/action list differs from the reachable set (C06's clause)")
            return False
        self.spos = [B.sidx(lab) for lab in self.sl]          # position in state_list -> abstract state
        self.apos = {B.aidx(lab): i for i, lab in enumerate(self.al)}   # abstract action -> index
        # ---- vector side prerequisites
        self.vec_ok = True
        self.opos = {}
        for site, fn in (("transition_matrix", lambda: p.transition_matrix),
                         ("observation_list", lambda: list(p.observation_list)),
                         ("observation_matrix", lambda: p.observation_matrix)):
            self.ctx.evaluations += 1
            try:
                val = fn()
            except Exception as e:                           # noqa: BLE001
                self.vec_ok = False
                self.ok = False
                if rep["outside"] is not None and isinstance(e, (KeyError, ValueError, IndexError)):
                    sig = f"C07:{site}:{shape}"
                else:
                    sig = f"C07:{site}:raised-{type(e).__name__}:{shape}"
                self.ctx.violation(sig, f"{site} raised {type(e).__name__}: {e} - the vectorised filter cannot be "
                                        f"computed for this POMDP although the dictionary filter can ({shape})"[:500],
                                   {"case": self.case, "site": site, "clause": "dict-vec-agree"})
                break
            if site == "observation_list":
                self.ol = val
        if self.vec_ok:
            self.check_observation_tensor()
        self.bm = BeliefMDP(p)
        self.kept = []
        self.zero_atom_drift = False
        self.matrix_snaps = {}
        if self.vec_ok:
            for name in ("transition_matrix", "observation_matrix"):
                self.matrix_snaps[name] = np.array(getattr(p, name), dtype=float, copy=True)

        from msdm.core.pomdp.alphavectorpolicy import AlphaVectorPolicy
        self.alpha = m.get("alpha")
        av = np.array([[float(self.alpha[n]) if self.alpha else 0.0 for n in self.spos]])
        self.pol = AlphaVectorPolicy(p, av)        # a ValueBasedTabularPOMDPPolicy (next_agentstate is inherited)
        self.trng = random.Random(digest(self.case) + "tuples")
        self.sdtag = "+restricted-actions" if any(0 in row for row in m["avail"]) else ""
        return True

    def check_observation_tensor(self):
        B, m, p = self.B, self.m, self.p
        known = {}
        for oi, lab in enumerate(self.ol):
            if lab in B.olabel:
                known[oi] = B.oidx(lab)
        self.opos = {o: oi for oi, o in known.items()}
        missing = [o for o in B.olisted if o not in self.opos]
        if missing:
            self.vec_ok = False
            self.fail("observation_list", "positive-probability-observation-missing", None,
                      f"observations {missing} have positive probability at a listed state but are not in observation_list")
            return
        om = np.asarray(p.observation_matrix)
        if om.shape != (len(self.al), len(self.sl), len(self.ol)):
            self.vec_ok = False
            self.fail("observation_matrix", "shape", None, f"shape {om.shape}")
            return
        for a in range(m["K"]):
            for si, n in enumerate(self.spos):
                for oi in range(len(self.ol)):
                    exp = F(m["O"][a][n][known[oi]], m["OD"]) if oi in known else F(0)
                    if abs(float(om[self.apos[a], si, oi]) - float(exp)) > 1e-12:
                        self.fail("observation_matrix", "entry", None,
                                  f"obs[{a},{n},{known.get(oi)}]={om[self.apos[a], si, oi]} expected {exp}")
                        return
        self.ctx.count("observation_tensors_checked")

    # ------------------------------------------------------------------ belief inputs
    def belief_input(self, rd, probs_float):
        """The belief handed to the dictionary functions at a non-root node."""
        brep = self.rep["brep"]
        if brep in ("returned", "native"):
            return rd
        from msdm.core.distributions import DictDistribution
        if brep == "zeros":      # the returned probabilities plus explicit zero entries for every listed state
            return DictDistribution({lab: rd.prob(lab) for lab in self.sl})
        return DictDistribution({lab: rd.prob(lab) for lab in self.sl if rd.prob(lab) > 0})

    def root_belief(self, eb):
        brep = self.rep["brep"]
        kind = {"returned": "dict", "zeros": "dict_zeros", "dict": "dict"}.get(brep)
        if brep == "native":
            supp = [x for x in eb if x > 0]
            kind = "det" if len(supp) == 1 else ("uniform" if len(set(supp)) == 1 else "dict_zeros")
        return pb.make_belief(kind, self.B, eb)

    def vec(self, eb):
        return np.array([float(eb[n]) for n in self.spos])

    # ------------------------------------------------------------------ comparisons
    def cmp_belief(self, site, node, shape, getp, exp, clause="posterior"):
        """getp(n) = real probability of abstract state n; exp = exact belief or None (impossible)."""
        for n in range(self.m["N"]):
            e = float(exp[n]) if exp is not None else 0.0
            r = getp(n)
            if r is None:
                if e != 0:
                    raise TLCFailure(f"case {self.idx}: exact belief has mass on unlisted state {n}")
                continue
            if not (abs(r - e) <= TOL):     # also catches nan
                what = (f"P(state {n}) = {r!r} but Bayes posterior is {exp[n] if exp is not None else 0}"
                        f" (exact belief {[str(x) for x in exp] if exp is not None else 'empty'})")
                self.fail(site, clause if exp is not None else "impossible-observation-not-empty", shape, what, node)
                return False
        return True

    # ------------------------------------------------------------------ value-based policy reading Belief tuples
    def check_alpha_values(self, rec, rag, eb, la, allowed, shape):
        """AlphaVectorPolicy with ONE alpha vector: value(b) = alpha.b and, because the probability-weighted
        mean of the posteriors is the state prediction, action_value(b, a) = R(b, a) + gamma * alpha.pred(b, a).
        Both must not depend on how the Belief tuple lists its states."""
        m, B = self.m, self.B
        g = F(m["GN"], m["GD"])
        exp_v = F(la["val"], la["bsum"])
        for mode in ("canonical", "permuted", "support"):
            ag = rearrange(rag, mode, self.trng)
            tag = shape + ("" if mode == "canonical" else f"+{mode}-belief-tuple")
            v = self.call("AlphaVectorPolicy.value", tag, rec, self.pol.value, ag)
            if v is not None and not abs(float(v) - float(exp_v)) <= TOL * max(1.0, abs(float(exp_v))):
                self.fail("AlphaVectorPolicy.value", "belief-tuple-read-through-its-own-states", tag,
                          f"value({ag}) = {v!r}, exact alpha.b = {exp_v} (alpha {m['alpha']})", rec)
            for a in allowed:
                exp_q = F(la["rw"][a], la["rden"]) + g * F(la["apred"][a], la["rden"])
                q = self.call("AlphaVectorPolicy.action_value", tag, rec, self.pol.action_value, ag, B.alabel[a])
                if q is not None and not abs(float(q) - float(exp_q)) <= TOL * max(1.0, abs(float(exp_q))):
                    self.fail("AlphaVectorPolicy.action_value", "reward-plus-discounted-mean-of-posteriors", tag,
                              f"action_value({ag}, {a}) = {q!r}, exact R + gamma*alpha.pred = {exp_q}", rec)
                elif q is not None:
                    self.ctx.validated += 1

    # ------------------------------------------------------------------ the filter machine
    def run_filter(self, b0):
        from msdm.core.pomdp.tabularpomdp import Belief
        m, B, p, ctx = self.m, self.B, self.p, self.ctx
        N, K, NO = m["N"], m["K"], m["NO"]
        root = self.recs.get(("filter", b0, ()))
        if root is None:
            raise TLCFailure(f"case {self.idx}: no root record for filter/b0={b0}")
        eb0 = exact_belief(root["bv"])
        real = {(): (self.root_belief(eb0), self.vec(eb0), Belief(tuple(self.sl), tuple(self.vec(eb0).tolist())))}
        if b0 == 1:
            # not a clause of the statement (the prior is an input of the filter): DRIFT only
            try:
                ia = self.pol.initial_agentstate()
                good = (tuple(ia.states) == tuple(self.sl) and len(ia.probs) == len(self.sl)
                        and all(abs(float(x) - float(y)) <= TOL for x, y in zip(ia.probs, self.vec(eb0))))
            except Exception as e:                                   # noqa: BLE001
                ia, good = repr(e), False
            if not good:
                ctx.drift("ValueBasedTabularPOMDPPolicy.initial_agentstate", {"case": digest(self.case), "got": str(ia)[:200]})
        nodes = sorted((k for k in self.recs if k[0] == "filter" and k[1] == b0), key=lambda k: len(k[2]))
        for key in nodes:
            rec = self.recs[key]
            h = key[2]
            if rec["phase"] != "live":
                continue
            if h not in real:
                continue                       # the real code failed on the way here (already reported)
            self.node_ok = True
            rd, rv, rag = real[h]
            w = rec["bv"]
            eb = exact_belief(w)
            shape = shape_of(w, m) + self.sdtag
            la = rec["la"]
            inp = self.belief_input(rd, None) if h else rd
            if not la:                      # tiny-mass case: a leaf without look-ahead table (spec: HasLA)
                ctx.count("tiny_mass_leaves_without_lookahead")
                continue
            den = la["den"]
            allowed = sorted(a - 1 for a in la["allowed"])     # actions available in every supported state
            if allowed != pb.allowed_actions(m, w):
                raise TLCFailure(f"case {self.idx}: allowed actions differ (TLA+ {allowed} vs Python)")
            if len(allowed) < K:
                ctx.count("nodes_with_unavailable_actions")
            if self.alpha and len(h) <= 1:
                self.check_alpha_values(rec, rag, eb, la, allowed, shape)
            if not h and allowed:
                a0 = allowed[self.trng.randrange(len(allowed))]
                o0 = self.trng.randrange(NO)
                ps = shape + "+probe"
                self.probe_recompute("predictive_observation_dist", ps, rec, p.predictive_observation_dist, inp, B.alabel[a0])
                self.probe_recompute("state_estimator", ps, rec, p.state_estimator, inp, B.alabel[a0], B.olabel[o0])
                if self.vec_ok:
                    self.probe_recompute("predictive_observation_vec", ps, rec, p.predictive_observation_vec, rv, self.apos[a0])
                    if o0 in self.opos:
                        self.probe_recompute("state_estimator_vec", ps, rec, p.state_estimator_vec, rv, self.apos[a0], self.opos[o0])
            # ---- predictive observation distribution (dictionary and vector)
            for a in allowed:
                exp = [F(la["obs"][a][o], den) for o in range(NO)]
                if sum(exp) != 1:
                    raise TLCFailure(f"case {self.idx}: emitted predictive distribution does not sum to 1")
                pod = self.call("predictive_observation_dist", shape, rec, p.predictive_observation_dist, inp, B.alabel[a])
                if pod is not None:
                    self.keep("predictive_observation_dist", pod, rec, shape)
                    tot = sum(pod.values())
                    if not abs(tot - 1) <= TOL:
                        self.fail("predictive_observation_dist", "not-normalised", shape, f"sums to {tot!r}", rec)
                    for o in range(NO):
                        r = pod.prob(B.olabel[o])
                        if not rel_close(r, float(exp[o])):
                            self.fail("predictive_observation_dist", "marginal", shape,
                                      f"Pr(obs {o} | b, action {a}) = {r!r}, exact marginal {exp[o]}", rec)
                            break
                if self.vec_ok:
                    pov = self.call("predictive_observation_vec", shape, rec, p.predictive_observation_vec, rv, self.apos[a])
                    if pov is not None:
                        pov = np.asarray(pov, dtype=float)
                        self.keep("predictive_observation_vec", pov, rec, shape)
                        if pov.shape != (len(self.ol),):
                            self.fail("predictive_observation_vec", "shape", shape, f"shape {pov.shape}", rec)
                        else:
                            if not abs(float(pov.sum()) - 1) <= TOL:
                                self.fail("predictive_observation_vec", "not-normalised", shape, f"sums to {pov.sum()!r}", rec)
                            for oi in range(len(self.ol)):
                                o = next((o for o, i in self.opos.items() if i == oi), None)
                                e = float(exp[o]) if o is not None else 0.0
                                if not rel_close(float(pov[oi]), e):
                                    self.fail("predictive_observation_vec", "marginal", shape,
                                              f"Pr(obs {o} | b, action {a}) = {pov[oi]!r}, exact marginal {e}", rec)
                                    break
                            if pod is not None and any(not agree(pod.prob(self.ol[oi]), float(pov[oi])) for oi in range(len(self.ol))):
                                self.fail("predictive_observation", "dict-vec-agree", shape,
                                          f"dictionary {dict(pod)} vs vector {pov.tolist()}", rec)
            # ---- one filter step per (action, observation)
            if len(h) < m["D"]:
                for a in allowed:
                    for o in range(NO):
                        ck = ("filter", b0, h + ((a + 1, o + 1),))
                        child = self.recs.get(ck)
                        if child is None:
                            raise TLCFailure(f"case {self.idx}: TLC emitted no successor for {ck}")
                        live = child["phase"] == "live"
                        exp = exact_belief(child["bv"]) if live else None
                        if not live:
                            ctx.count("impossible_observation_steps")
                        oshape = shape + ("" if live else "+impossible-observation")
                        if live and 0 < la["obs"][a][o] * 10 ** 6 < den:
                            oshape += "+rare-observation"
                            ctx.count("rare_observation_steps(0<Pr<=1e-6)")
                            if la["obs"][a][o] * 10 ** 8 <= den:
                                ctx.count("rare_observation_steps(0<Pr<=1e-8)")
                        # dictionary version
                        nd = self.call("state_estimator", oshape, child, p.state_estimator, inp, B.alabel[a], B.olabel[o])
                        okd = nd is not None
                        if okd:
                            self.keep("state_estimator", nd, child, oshape)
                        if nd is not None:
                            vals = list(nd.values())
                            if live:
                                if not abs(sum(vals) - 1) <= TOL or any(not (v >= 0) for v in vals):
                                    self.fail("state_estimator", "not-normalised", oshape, f"values {vals}", child)
                                    okd = False
                                extra = [k for k, v in nd.items() if k not in B.slabel and v != 0]
                                if extra:
                                    self.fail("state_estimator", "posterior", oshape, f"mass on unknown states {extra}", child)
                                    okd = False
                                okd = self.cmp_belief("state_estimator", child, oshape, lambda n: float(nd.prob(B.slabel[n])), exp) and okd
                                if okd and {B.sidx(k) + 1 for k in nd.keys()} != {x[0] for x in child["bd"]}:
                                    ctx.drift("dict-support", {"case": digest(self.case), "keys": [str(k) for k in nd.keys()],
                                                               "machine": child["bd"]})
                            else:
                                if len(nd) != 0 or any(v != 0 for v in vals):
                                    self.fail("state_estimator", "impossible-observation-not-empty", oshape,
                                              f"returned {dict(nd)} for a zero-probability observation", child)
                                    okd = False
                        # vector version
                        nv, okv = None, False
                        if self.vec_ok and o in self.opos:
                            nv = self.call("state_estimator_vec", oshape, child, p.state_estimator_vec, rv, self.apos[a], self.opos[o])
                            if nv is not None:
                                nv = np.asarray(nv, dtype=float)
                                self.keep("state_estimator_vec", nv, child, oshape)
                                if nv.shape != (len(self.sl),):
                                    self.fail("state_estimator_vec", "shape", oshape, f"shape {nv.shape}", child)
                                    nv = None
                                else:
                                    pos = {n: i for i, n in enumerate(self.spos)}
                                    okv = self.cmp_belief("state_estimator_vec", child, oshape,
                                                          lambda n: float(nv[pos[n]]) if n in pos else None, exp)
                                    if okv and okd and any(abs(nd.prob(self.sl[i]) - float(nv[i])) > 2 * TOL for i in range(len(self.sl))):
                                        self.fail("state_estimator", "dict-vec-agree", oshape, f"{dict(nd)} vs {nv.tolist()}", child)
                        elif self.vec_ok:
                            ctx.skip("vector filter not applicable: observation never has positive probability (not in observation_list)")
                        # belief tracking inside value-based policies
                        agin = rearrange(rag, self.rep.get("agrep"), self.trng)
                        ashape = oshape + ("" if agin is rag else f"+{self.rep.get('agrep')}-belief-tuple")
                        nag = self.call("ValueBasedTabularPOMDPPolicy.next_agentstate", ashape, child,
                                        self.pol.next_agentstate, agin, B.alabel[a], B.olabel[o])
                        oka = False
                        if nag is not None:
                            try:
                                st, pr = tuple(nag.states), [float(x) for x in nag.probs]
                            except Exception:                         # noqa: BLE001
                                st, pr = None, None
                            if st != tuple(self.sl) or len(pr) != len(self.sl):
                                self.fail("ValueBasedTabularPOMDPPolicy.next_agentstate", "belief-domain", oshape,
                                          f"returned {nag!r}", child)
                            else:
                                pos = {n: i for i, n in enumerate(self.spos)}
                                oka = self.cmp_belief("ValueBasedTabularPOMDPPolicy.next_agentstate", child, ashape,
                                                      lambda n: pr[pos[n]] if n in pos else None, exp)
                        if live and okd:
                            # feed the REAL outputs back in (fall back to exact values where a side is unavailable)
                            real[ck[2]] = (nd, nv if okv else self.vec(exp),
                                           nag if oka else Belief(tuple(self.sl), tuple(self.vec(exp).tolist())))
                            pe = pb.normalise([sum(eb[s] * m["P"][s][a][n] for s in range(N)) for n in range(N)])
                            if len([x for x in eb if x > 0]) >= 2 and exp != pe:
                                ctx.nontrivial(digest([digest(m), b0, list(ck[2])]))
                        if okd and (okv or nv is None) and oka:
                            ctx.validated += 1
            if len(h) >= 2 and len(rd) >= 2:
                ctx.sample({"instance": {k: m[k] for k in ("N", "K", "NO", "PD", "OD", "abs", "P", "O", "R", "p0")},
                        "rep": self.rep, "machine": "filter", "initial_belief": root["bv"], "history": rec["hist"],
                        "expected_belief_weights": rec["bv"], "real_dict_belief": {str(k): v for k, v in rd.items()}}, limit=3)

    # ------------------------------------------------------------------ belief recorded along simulated episodes
    def run_rollouts(self, n_runs=6):
        """policy.run_on(pomdp) simulates an episode and records, per step, the agent state before the step and
        the one after it (Step.agentstate / Step.nextagentstate; the terminal record carries the last belief).
        The (action, observation) history of the episode is a behaviour of the filter machine started at the
        POMDP's own initial distribution (initial belief 1), so every recorded belief - in particular the one
        recorded when the episode ENTERS an absorbing state - must be the Bayes posterior TLC emitted for it."""
        m, B, p, ctx = self.m, self.B, self.p, self.ctx
        if self.sdtag:
            # a value-based policy ranges over the whole action list, also over actions that the hidden state does
            # not offer: episodes of such models have no defined semantics
            ctx.skip("episodes not simulated: state-dependent action sets")
            return
        pos = {n: i for i, n in enumerate(self.spos)}
        for run in range(n_runs):
            rng = random.Random(digest(self.case) + f"rollout{run}")
            self.node_ok = True
            traj = self.call("POMDPPolicy.run_on", "", None, lambda: self.pol.run_on(p, max_steps=m["D"], rng=rng))
            if traj is None:
                continue
            h = ()
            ok = True
            for i, st in enumerate(traj):
                rec = self.recs.get(("filter", 1, h))
                if rec is None or rec["phase"] != "live":
                    raise TLCFailure(f"case {self.idx}: episode history {h} is not a live behaviour of the filter machine")
                shape = shape_of(rec["bv"], m) + self.sdtag

                def belief_ok(ag, exp_rec, what, tag):
                    try:
                        d = dict(zip(ag.states, [float(x) for x in ag.probs]))
                    except Exception:                                # noqa: BLE001
                        self.fail("POMDPPolicy.run_on", "recorded-agentstate-is-not-a-belief", tag, f"{what} = {ag!r}", exp_rec)
                        return False
                    return self.cmp_belief("POMDPPolicy.run_on", exp_rec, tag,
                                           lambda n: d.get(B.slabel[n], 0.0) if n in pos else None,
                                           exact_belief(exp_rec["bv"]), clause=f"{what}-is-not-the-bayes-posterior-of-the-episode-history")
                if not belief_ok(st.agentstate, rec, "recorded-agentstate", shape):
                    ok = False
                    break
                if st.action is None:            # terminal record
                    break
                a, o = B.aidx(st.action), B.oidx(st.observation)
                if not rec["la"] or (a + 1) not in rec["la"]["allowed"]:
                    ctx.count("episodes_cut_at_an_action_unavailable_in_a_supported_state")
                    break
                hc = h + ((a + 1, o + 1),)
                child = self.recs.get(("filter", 1, hc))
                if child is None or child["phase"] != "live":
                    if "m_build" in self.case:      # selftest: msdm was deliberately handed another instance
                        self.fail("POMDPPolicy.run_on", "episode-impossible-in-the-model", shape, f"history {hc}", rec)
                        ok = False
                        break
                    raise TLCFailure(f"case {self.idx}: sampled observation is impossible in the model at {hc}")
                entering = bool(m["abs"][B.sidx(st.nextstate)])
                tag = shape + ("+entering-absorbing-state" if entering else "")
                if entering:
                    ctx.count("episode_steps_entering_an_absorbing_state")
                if not belief_ok(st.nextagentstate, child, "recorded-nextagentstate", tag):
                    ok = False
                    break
                h = hc
            if ok:
                ctx.validated += 1
                ctx.count("episodes_validated")

    # ------------------------------------------------------------------ the filter machine, aliasing call history
    def run_inplace(self, b0, max_paths=8):
        """Replays behaviours of the filter machine the way a belief filter that keeps ONE belief object does:
        the same DictDistribution (and the same numpy array) is handed to every call and overwritten in place
        with the returned posterior (b.clear(); b.update(post) / arr[:] = post).  The posterior must be the Bayes
        posterior of the belief's CURRENT contents; a result returned earlier must not change afterwards."""
        from msdm.core.distributions import DictDistribution
        m, B, p, ctx = self.m, self.B, self.p, self.ctx
        cands = [k[2] for k in self.recs if k[0] == "filter" and k[1] == b0 and len(k[2]) >= 2
                 and self.recs[k]["phase"] == "live"]
        if not cands:
            return
        cands.sort()
        rep_a = [h for h in cands if any(h[i][0] == h[i + 1][0] for i in range(len(h) - 1))]   # same action twice in a row
        self.trng.shuffle(rep_a)
        self.trng.shuffle(cands)
        paths = (rep_a[:max_paths - 2] + cands)[:max_paths]
        root = self.recs[("filter", b0, ())]
        eb0 = exact_belief(root["bv"])
        pos = {n: i for i, n in enumerate(self.spos)}
        for h in paths:
            zeros = self.rep["brep"] == "zeros"
            shared = DictDistribution({B.slabel[n]: float(eb0[n]) for n in sorted(B.listed) if eb0[n] > 0 or zeros})
            arr = self.vec(eb0).copy()
            prev = None
            good = True
            for i, (a1, o1) in enumerate(h):
                a, o = a1 - 1, o1 - 1
                parent = self.recs[("filter", b0, h[:i])]
                child = self.recs[("filter", b0, h[:i + 1])]
                exp = exact_belief(child["bv"])
                shape = shape_of(parent["bv"], m) + self.sdtag + "+belief-object-updated-in-place"
                la = parent["la"]
                pod = self.call("predictive_observation_dist", shape, parent, p.predictive_observation_dist, shared, B.alabel[a])
                if pod is not None:
                    for oo in range(m["NO"]):
                        if not rel_close(pod.prob(B.olabel[oo]), float(F(la["obs"][a][oo], la["den"]))):
                            self.fail("predictive_observation_dist", "marginal", shape,
                                      f"Pr(obs {oo} | b, action {a}) = {pod.prob(B.olabel[oo])!r}, exact {F(la['obs'][a][oo], la['den'])}", parent)
                            good = False
                            break
                post = self.call("state_estimator", shape, child, p.state_estimator, shared, B.alabel[a], B.olabel[o])
                if post is None or not self.cmp_belief("state_estimator", child, shape,
                                                       lambda n: float(post.prob(B.slabel[n])), exp):
                    good = False
                    break
                if prev is not None and dict(prev[0]) != prev[1]:
                    self.fail("state_estimator", "returned-posterior-changed-by-a-later-call", shape,
                              f"posterior returned one call earlier was {prev[1]}, now reads {dict(prev[0])}", child)
                    good = False
                prev = (post, dict(post))
                shared.clear()
                shared.update(post)
                if self.vec_ok and o in self.opos:
                    nv = self.call("state_estimator_vec", shape, child, p.state_estimator_vec, arr, self.apos[a], self.opos[o])
                    if nv is None or np.asarray(nv).shape != arr.shape or not self.cmp_belief(
                            "state_estimator_vec", child, shape, lambda n: float(nv[pos[n]]) if n in pos else None, exp):
                        good = False
                        arr = self.vec(exp).copy()
                    else:
                        arr[:] = nv
                else:
                    arr = self.vec(exp).copy()
            if good:
                ctx.validated += 1
                ctx.count("behaviours_replayed_with_one_belief_object_updated_in_place")

    # ------------------------------------------------------------------ the belief-MDP machine
    def run_bmdp(self, b0):
        from msdm.core.pomdp.tabularpomdp import Belief
        m, B, ctx, bm = self.m, self.B, self.ctx, self.bm
        N, K = m["N"], m["K"]
        root = self.recs.get(("bmdp", b0, ()))
        if root is None:
            raise TLCFailure(f"case {self.idx}: no root record for bmdp/b0={b0}")
        eb0 = exact_belief(root["bv"])
        order = list(range(len(self.sl)))
        if self.rep.get("keyperm"):
            order = order[::-1]               # a Belief key may list the states in any order
        v0 = self.vec(eb0)
        real = {(): Belief(tuple(self.sl[i] for i in order), tuple(float(v0[i]) for i in order))}
        if b0 == 1:
            # initial belief and action set of the belief MDP: not clauses of the statement, DRIFT only
            try:
                isd = bm.initial_state_dist()
                ks = [k for k, pr in isd.items() if pr > 0]
                good = (len(ks) == 1 and tuple(ks[0].states) == tuple(self.sl)
                        and all(abs(float(x) - float(v0[i])) <= TOL for i, x in enumerate(ks[0].probs)))
            except Exception as e:                                   # noqa: BLE001
                isd, good = repr(e), False
            if not good:
                ctx.drift("BeliefMDP.initial_state_dist", {"case": digest(self.case), "got": str(isd)[:200]})
            try:
                acts = bm.actions(real[()])
                good = set(acts) == set(self.al)
            except Exception as e:                                   # noqa: BLE001
                acts, good = repr(e), False
            if not good:
                ctx.drift("BeliefMDP.actions", {"case": digest(self.case), "got": str(acts)[:200]})
        nodes = sorted((k for k in self.recs if k[0] == "bmdp" and k[1] == b0), key=lambda k: len(k[2]))
        pos = {n: i for i, n in enumerate(self.spos)}
        for key in nodes:
            rec = self.recs[key]
            h = key[2]
            if h not in real:
                continue
            self.node_ok = True
            w = rec["bv"]
            rk = rearrange(real[h], self.rep.get("keyrep"), self.trng)
            shape = shape_of(w, m) + self.sdtag + ("" if rk is real[h] else f"+{self.rep.get('keyrep')}-belief-tuple")
            la = rec["la"]
            if not la:
                continue
            allowed = sorted(a - 1 for a in la["allowed"])
            # ---- absorption
            ab = self.call("BeliefMDP.is_absorbing", shape, rec, bm.is_absorbing, rk)
            if ab is not None and bool(ab) != bool(la["absb"]):
                self.fail("BeliefMDP.is_absorbing", "mass-on-absorbing-states", shape,
                          f"is_absorbing = {bool(ab)} for belief weights {w} with absorbing flags {m['abs']}", rec)
            for a in allowed:
                # ---- transition row
                row = self.call("BeliefMDP.next_state_dist", shape, rec, bm.next_state_dist, rk, B.alabel[a])
                succ = [(exact_belief(s["b"]), F(s["w"], la["den"]), tuple(s["b"])) for s in la["succ"][a]]
                if sum(x[1] for x in succ) != 1:
                    raise TLCFailure(f"case {self.idx}: emitted belief-MDP row does not sum to 1")
                matched = {}
                rowok = row is not None
                if row is not None:
                    self.keep("BeliefMDP.next_state_dist", row, rec, shape)
                    items = list(row.items())
                    tot = sum(pr for _, pr in items)
                    if not abs(tot - 1) <= TOL or any(not (pr >= 0) for _, pr in items):
                        self.fail("BeliefMDP.next_state_dist", "not-normalised", shape, f"probabilities {[pr for _, pr in items]}", rec)
                        rowok = False
                    mean = [0.0] * N
                    got = [0.0] * len(succ)
                    for nbk, pr in items:
                        try:
                            st, prs = tuple(nbk.states), [float(x) for x in nbk.probs]
                        except Exception:                             # noqa: BLE001
                            st, prs = None, []
                        if st != tuple(self.sl) or len(prs) != len(self.sl):
                            self.fail("BeliefMDP.next_state_dist", "belief-domain", shape, f"successor {nbk!r}", rec)
                            rowok = False
                            continue
                        if pr == 0:
                            # a zero-probability atom does not change the distribution (and reachable_states skips it):
                            # no clause of the statement is broken, but the reference machine lists no such successor
                            if not abs(sum(prs) - 1) <= TOL:
                                if not self.zero_atom_drift:
                                    self.zero_atom_drift = True
                                    ctx.drift("BeliefMDP.next_state_dist:zero-probability-entry-that-is-not-a-belief",
                                              {"case": digest(self.case), "entry": prs})
                                ctx.count("belief_mdp_zero_probability_entries_that_are_not_beliefs")
                            continue
                        if not abs(sum(prs) - 1) <= TOL or any(not (x >= 0) for x in prs):
                            self.fail("BeliefMDP.next_state_dist", "successor-belief-not-normalised", shape, f"successor {prs}", rec)
                            rowok = False
                        for n in pos:
                            mean[n] += pr * prs[pos[n]]
                        # nearest exact posterior (two distinct exact posteriors of a tiny-mass belief can be
                        # closer than TOL to each other; their probabilities are then compared as one cluster)
                        dist = [max(abs(prs[pos[n]] - float(e[n])) for n in pos) for e, _, _ in succ]
                        j = min(range(len(succ)), key=lambda x: dist[x]) if succ else None
                        if j is None or not dist[j] <= TOL:
                            self.fail("BeliefMDP.next_state_dist", "successor-is-not-a-bayes-posterior", shape,
                                      f"successor {prs} (p={pr}) is none of the exact posteriors {[[str(x) for x in e] for e, _, _ in succ]}", rec)
                            rowok = False
                        else:
                            got[j] += pr
                            matched.setdefault(succ[j][2], nbk)
                    pe = [F(la["pred"][a][n], la["rden"]) for n in range(N)]
                    if sum(pe) != 1:
                        raise TLCFailure(f"case {self.idx}: emitted state prediction does not sum to 1")
                    if rowok and any(abs(mean[n] - float(pe[n])) > TOL for n in range(N)):
                        self.fail("BeliefMDP.next_state_dist", "mean-is-not-the-state-prediction", shape,
                                  f"mean {mean} vs prediction {[str(x) for x in pe]}", rec)
                        rowok = False
                    # clusters of exact successors that floats cannot be expected to separate
                    cl = list(range(len(succ)))
                    for x in range(len(succ)):
                        for y in range(x):
                            if max(abs(float(succ[x][0][n]) - float(succ[y][0][n])) for n in range(N)) <= 1e-6:
                                cx, cy = cl[x], cl[y]
                                cl = [cy if c == cx else c for c in cl]
                    gotc, expc = {}, {}
                    for x in range(len(succ)):
                        gotc[cl[x]] = gotc.get(cl[x], 0.0) + got[x]
                        expc[cl[x]] = expc.get(cl[x], 0) + succ[x][1]
                    if len(expc) != len(succ):
                        ctx.count("belief_mdp_rows_with_nearly_equal_exact_posteriors")
                    if rowok and any(not rel_close(gotc[c], float(expc[c])) for c in expc):
                        self.fail("BeliefMDP.next_state_dist", "transition-probability", shape,
                                  f"probabilities {got} vs exact {[str(x[1]) for x in succ]}", rec)
                        rowok = False
                    if rowok and len(items) != len(succ):
                        ctx.count("belief_mdp_rows_with_unmerged_equal_posteriors")
                # ---- reward
                exp_r = F(la["rw"][a], la["rden"])
                nbk = next(iter(matched.values()), rk)
                r = self.call("BeliefMDP.reward", shape, rec, bm.reward, rk, B.alabel[a], nbk)
                rok = r is not None
                if r is not None and not abs(float(r) - float(exp_r)) <= TOL * max(1.0, abs(float(exp_r))):
                    self.fail("BeliefMDP.reward", "belief-expected-reward", shape,
                              f"reward {r!r} for action {a}, exact {exp_r}", rec)
                    rok = False
                if rowok and rok:
                    ctx.validated += 1
                    if len(succ) >= 2 and len([x for x in w if x > 0]) >= 2:
                        ctx.nontrivial(digest([digest(m), "bmdp", b0, [[e[0], list(e[1])] for e in h], a]))
                if len(h) < m["DB"]:
                    for e, _, wkey in succ:
                        if wkey in matched:
                            real[h + ((a + 1, wkey),)] = matched[wkey]
            if len(h) >= 1 and len(la["succ"][0]) >= 2:
                ctx.sample({"instance": {k: m[k] for k in ("N", "K", "NO", "PD", "OD", "abs", "P", "O", "R", "p0")},
                        "rep": self.rep, "machine": "bmdp", "belief_weights": w,
                        "expected_row_action0": [[s["b"], s["w"], la["den"]] for s in la["succ"][0]]}, limit=4)

    def run(self):
        if not self.setup():
            return
        for b0 in range(1, len(self.m["beliefs"]) + 1):
            self.run_filter(b0)
            self.run_inplace(b0)
            if b0 == 1:
                self.run_rollouts()
            self.run_bmdp(b0)
        self.verify_kept()
        if self.ok:
            self.ctx.count("cases_fully_conformant")


# --------------------------------------------------------------------------------------------
# machinery cross-check: the TLA+ oracle against an independent Fraction implementation
# --------------------------------------------------------------------------------------------
def crosscheck(idx, m, rec):
    b = exact_belief(m["beliefs"][rec["b0"] - 1])
    if rec["mach"] == "filter":
        for e in rec["hist"]:
            post, _ = pb.exact_filter(m, b, e["a"] - 1, e["o"] - 1)
            if post is None:
                if rec["phase"] != "empty" or e is not rec["hist"][-1]:
                    raise TLCFailure(f"case {idx}: Python says impossible, TLA+ disagrees at {rec['hist']}")
                if any(rec["bv"]):
                    raise TLCFailure(f"case {idx}: non-zero belief after an impossible observation")
                return
            b = post
        if rec["phase"] != "live":
            raise TLCFailure(f"case {idx}: TLA+ says impossible, Python disagrees at {rec['hist']}")
    else:
        for e in rec["hist"]:
            b = exact_belief(e["b"])
    if exact_belief(rec["bv"]) != b:
        raise TLCFailure(f"case {idx}: TLA+ belief {rec['bv']} != Python {b} at {rec['hist']}")
    if pb.reduce_w(rec["bv"]) != list(rec["bv"]):
        raise TLCFailure(f"case {idx}: emitted belief is not in canonical form")
    la = rec["la"]
    for a in range(m["K"]):
        od = pb.exact_obs_dist(m, b, a)
        if [F(x, la["den"]) for x in la["obs"][a]] != od:
            raise TLCFailure(f"case {idx}: predictive observation distribution differs (TLA+ vs Python)")
        if F(la["rw"][a], la["rden"]) != pb.exact_reward(m, b, a):
            raise TLCFailure(f"case {idx}: belief reward differs (TLA+ vs Python)")
        if [F(x, la["rden"]) for x in la["pred"][a]] != pb.exact_predict(m, b, a):
            raise TLCFailure(f"case {idx}: state prediction differs (TLA+ vs Python)")
        row = pb.exact_belief_mdp_row(m, b, a)
        trow = {tuple(exact_belief(s["b"])): F(s["w"], la["den"]) for s in la["succ"][a]}
        if row != trow:
            raise TLCFailure(f"case {idx}: belief-MDP row differs (TLA+ vs Python)")
    if bool(la["absb"]) != all(m["abs"][s] for s in range(m["N"]) if b[s] > 0):
        raise TLCFailure(f"case {idx}: absorption differs (TLA+ vs Python)")


# --------------------------------------------------------------------------------------------
def judge_cases(ctx, cases, *, tamper=None, mutate_records=None):
    batch = [c["m"] for c in cases]
    res = run_tlc(ctx.workdir / "mc", "C07_Belief", CFG, files={"batch.json": batch},
                  env={"BATCH_FILE": "batch.json"}, coverage=(ctx.tier == "thorough"))
    ctx.add_tlc(res, "mc: filter machine (all action/observation histories) + belief-MDP machine (all paths) over the batch")
    bad = [v for v in res.violated if v in DESIGN_INVS]
    if bad:
        raise TLCFailure(f"design-level invariant violated in C07_Belief: {sorted(set(bad))}\n"
                         + (res.traces[0][:3000] if res.traces else ""))
    per = {}
    for r in res.records:
        per.setdefault(r["iid"], {})[(r["mach"], r["b0"], hkey(r))] = r
    if mutate_records is not None:
        mutate_records(per)
    nx = 0
    for i, c in enumerate(cases, start=1):
        recs = per.get(i)
        if not recs:
            raise TLCFailure(f"no records for case {i}")
        for key, r in recs.items():
            if r["phase"] == "live" and r["la"]:
                nx += 1
                if nx % 10 == 0:
                    crosscheck(i, c["m"], r)
                    ctx.count("oracle_crosschecks")
        Judge(ctx, i, c, recs, tamper=tamper).run()


def run(ctx):
    rng = random.Random(ctx.seed * 7919 + 7)
    n = 200 if ctx.tier == "quick" else 600
    ctx.rule = ("random tabular POMDPs (2-4 states incl. 0-2 explicitly absorbing ones with or without ghost dynamics, "
                "1-3 actions, 1-3 observations, PD, OD in {2,3,4}, action-dependent observation rows with zero entries; "
                "identity / single / uninformative observation kernels) x initial beliefs (own initial distribution, vertex, "
                "zero component, interior) + tiny-mass cases (belief weight 1 of W = 5e8/(PD*OD) on the only state that can produce a planted observation: 0 < Pr(o|b,a) <= 8e-9, depth 1) x label kinds x distribution kinds x belief representations; every "
                "action/observation history to the depth bound. non-trivial = a filter step from a belief with >= 2 "
                "supported states under an informative observation (posterior != normalised prediction), or a belief-MDP "
                "row with >= 2 distinct successor beliefs from such a belief; keyed by (instance, initial belief, history)")
    ctx.assumptions = [
        "TLC evaluates the TLA+ oracle correctly (every 10th emitted live state is recomputed by an independent Fraction implementation)",
        "posteriors are compared with the exact rationals at 1e-9 absolute (direct algebraic results, chains of <= 4 updates); "
        "predictive and belief-MDP transition probabilities, which can be ~1e-9 at tiny-mass beliefs, at 1e-9 relative + 1e-18 "
        "(sums of non-negative products: relative float error < 1e-13, derivation at rel_close)",
        "40% of the cases with >= 2 actions have state-dependent action sets (terminal and a few other states offer a subset; "
        "the observation kernel is defined for every (action, arrival state)); the real code is only run with actions "
        "available in every supported state (POMDP!Allowed)",
        "Belief tuples handed to next_agentstate / BeliefMDP / AlphaVectorPolicy are the real outputs, re-listed canonically, "
        "with permuted states or with the supported states only; AlphaVectorPolicy is run with one integer alpha vector, for "
        "which action_value = R(b,a) + gamma*alpha.prediction exactly (mean-of-posteriors clause)",
        "the Bayes filter and the belief reward use the declared rows of absorbing states (literal reading); "
        "75% of the instances have self-looping zero-reward absorbing states where both readings coincide",
        "beliefs are supported on the state list",
        "is_absorbing(s) of the model answers with a bool, a numpy.bool_ or a 0/1 integer (per case); 6 episodes per case are "
        "simulated with policy.run_on (seeded, max_steps = depth bound) and every recorded agent state is compared with the "
        "filter machine's state for the episode's action/observation history (not for state-dependent action sets)",
        "30% of the cases declare observation_list / action_list as class attributes in a non-sorted order (as LoadUnload does); "
        "label kind 'falsy' uses None, '', (), 0; up to 8 behaviours per (case, initial belief) are additionally replayed with one "
        "belief object / array overwritten in place between the calls",
    ]
    cases = make_cases(rng, n, ctx.tier)
    chunk = 120 if ctx.tier == "quick" else 100
    for k in range(0, len(cases), chunk):
        judge_cases(ctx, cases[k:k + chunk])


def replay(ctx, case):
    judge_cases(ctx, [case["case"]])


def selftest(ctx):
    """Binding demonstration: (1) one value returned by the real code is corrupted, (2) one expected value
    emitted by TLC is swapped, (3) msdm is handed an instance with two observation entries transposed.
    Each must be reported."""
    rng = random.Random(11)
    cases = [c for c in make_cases(rng, 12, "quick") if c["rep"]["outside"] is None]
    ok = True
    # (1) corrupt the first posterior returned by state_estimator_vec
    state = {"done": False}

    def tamper(site, out):
        if site == "state_estimator_vec" and not state["done"] and float(np.sum(out)) > 0 and len(out) >= 2:
            state["done"] = True
            out = np.array(out, dtype=float)
            out[0], out[1] = out[0] + 1e-6, out[1] - 1e-6
        return out
    before = len(ctx.violations)
    judge_cases(ctx, cases, tamper=tamper)
    ok &= state["done"] and any("state_estimator_vec" in v[0] for v in ctx.violations[before:])

    # (2) swap one expected value
    def mutate(per):
        for recs in per.values():
            for key, r in recs.items():
                if r["mach"] == "filter" and r["phase"] == "live" and len(key[2]) == 1 and len([x for x in r["bv"] if x]) >= 2:
                    nz = [i for i, x in enumerate(r["bv"]) if x]
                    r["bv"][nz[0]] += 1
                    return
    before = len(ctx.violations)
    judge_cases(ctx, cases[:4], mutate_records=mutate)
    ok &= any("state_estimator" in v[0] for v in ctx.violations[before:])
    # (3) transposed observation entries in the instance handed to msdm
    import copy
    c = None
    for cand in cases:
        m = cand["m"]
        for a in range(m["K"]):
            for n in range(m["N"]):
                row = m["O"][a][n]
                if len(set(row)) > 1 and n in pb.listed_states(m, cand["rep"]["explicit_list"]) and c is None:
                    mb = copy.deepcopy(m)
                    i, j = [k for k in range(len(row)) if row[k] != row[(k + 1) % len(row)]][0], None
                    j = (i + 1) % len(row)
                    mb["O"][a][n][i], mb["O"][a][n][j] = row[j], row[i]
                    c = dict(cand)
                    c["m_build"] = mb
    before = len(ctx.violations)
    judge_cases(ctx, [c])
    ok &= len(ctx.violations) > before
    return bool(ok)
