"""TLC runner and output parser.

Every TLC invocation of the framework goes through run_tlc():
  * the module, every other spec/*.tla and spec/lib/*.tla are copied into a private work
    directory (so EXTENDS resolves and concurrent runs do not share TLC's metadir);
  * data files (batches, traces) are written as JSON next to them and their names are passed
    through environment variables that the specs read with IOEnv.<NAME>;
  * the output is parsed into: state counts, PrintT(ToJson(..)) records, violated invariants,
    evaluation errors, per-action coverage.
A TLC run that neither finishes nor reports only invariant violations is a *machinery* failure
(TLCFailure), never a verdict.
"""
import json
import os
import re
import shutil
import subprocess
import time
from dataclasses import dataclass, field
from pathlib import Path

VERIF = Path(__file__).resolve().parent.parent
SPEC = VERIF / "spec"
JAR = "/opt/veriftools/tla/tla2tools.jar"
DEPS = "/opt/veriftools/tla/CommunityModules-deps.jar"


def _default_workers():
    f = VERIF / ".tlc_workers"          # untracked, optional local override
    if f.exists():
        try:
            return max(1, int(f.read_text().strip()))
        except ValueError:
            pass
    return os.cpu_count() or 4


class TLCFailure(RuntimeError):
    """TLC could not do its job (parse error, evaluation error, overflow guard, timeout)."""


@dataclass
class TLCResult:
    module: str
    workdir: Path
    wall_s: float
    exit_code: int
    generated: int = 0
    distinct: int = 0
    depth: int = 0
    records: list = field(default_factory=list)       # parsed PrintT(ToJson(..)) lines, de-duplicated
    violated: list = field(default_factory=list)      # names of violated invariants / properties
    errors: list = field(default_factory=list)        # other "Error:" lines
    coverage: dict = field(default_factory=dict)      # action name -> (distinct, generated)
    stdout: str = ""
    traces: list = field(default_factory=list)        # raw counterexample texts

    @property
    def ok(self):
        return not self.violated and not self.errors


_COUNT = re.compile(r"(\d+) states generated, (\d+) distinct states found")
_DEPTH = re.compile(r"The depth of the complete state graph search is (\d+)")
_INV = re.compile(r"Error: Invariant (\S+) is violated")
_ACTPROP = re.compile(r"Error: Action property (\S+) is violated")
_COV = re.compile(r"^<(\w+) line \d+, col \d+ to line \d+, col \d+ of module (\w+)>: (\d+):(\d+)")
_SIMCOUNT = re.compile(r"(\d+) states checked")


def _parse_json_line(line):
    line = line.strip()
    if not (line.startswith('"{') or line.startswith('"[')):
        return None
    try:
        inner = json.loads(line)
        return json.loads(inner)
    except Exception:
        return None


def prepare(workdir: Path, files=None):
    workdir.mkdir(parents=True, exist_ok=True)
    for p in list(SPEC.glob("*.tla")) + list((SPEC / "lib").glob("*.tla")):
        shutil.copy(p, workdir / p.name)
    for name, content in (files or {}).items():
        path = workdir / name
        if isinstance(content, (dict, list)):
            with open(path, "w") as f:
                json.dump(content, f)
        else:
            path.write_text(content)


def run_tlc(workdir, module, cfg, *, files=None, env=None, workers=None, simulate=None,
            depth=None, timeout=3600, continue_=True, coverage=False, seed=None,
            heap="6g", extra=(), allow_violation=True, fp=None):
    """Run TLC on spec/<module>.tla with the given cfg text.

    files: {filename: str | json-able} written into the work directory.
    env:   {NAME: value} extra environment (IOEnv.NAME in the spec).
    simulate: None for exhaustive BFS, or a string like "num=1000" for -simulate.
    Returns TLCResult; raises TLCFailure on anything that is not a clean run or a run whose only
    errors are invariant / property violations.
    """
    workdir = Path(workdir)
    prepare(workdir, files)
    (workdir / f"{module}.cfg").write_text(cfg)
    meta = workdir / "meta"
    if meta.exists():
        shutil.rmtree(meta)
    if workers is None:
        # default: all cores; VERIF_TLC_WORKERS lowers it (used while many checks are developed in parallel)
        workers = int(os.environ.get("VERIF_TLC_WORKERS", "0") or 0) or _default_workers()
    cmd = ["java", "-XX:+UseParallelGC", f"-Xmx{heap}", "-cp", f"{JAR}:{DEPS}", "tlc2.TLC",
           "-workers", str(workers), "-metadir", str(meta), "-noGenerateSpecTE"]
    if fp is not None:
        cmd += ["-fp", str(fp)]
    if seed is not None:
        cmd += ["-seed", str(seed)]
    if continue_ and simulate is None:
        cmd += ["-continue"]
    if coverage:
        cmd += ["-coverage", "1"]
    if simulate is not None:
        cmd += ["-simulate", simulate]
        if depth is not None:
            cmd += ["-depth", str(depth)]
    cmd += list(extra)
    cmd += [f"{module}.tla"]
    e = dict(os.environ)
    e.pop("JAVA_TOOL_OPTIONS", None)
    for k, v in (env or {}).items():
        e[k] = str(v)
    t0 = time.time()
    try:
        p = subprocess.run(cmd, cwd=workdir, env=e, stdout=subprocess.PIPE, stderr=subprocess.STDOUT,
                           text=True, timeout=timeout)
    except subprocess.TimeoutExpired as ex:
        subprocess.run(["pkill", "-f", str(meta)], check=False)
        raise TLCFailure(f"TLC timed out after {timeout}s on {module}") from ex
    wall = time.time() - t0
    out = p.stdout
    res = TLCResult(module=module, workdir=workdir, wall_s=wall, exit_code=p.returncode, stdout=out)
    seen = set()
    in_trace = False
    cur_trace = []
    for line in out.splitlines():
        rec = _parse_json_line(line)
        if rec is not None:
            key = line.strip()
            if key not in seen:
                seen.add(key)
                res.records.append(rec)
            continue
        m = _COUNT.search(line)
        if m:
            res.generated, res.distinct = int(m.group(1)), int(m.group(2))
            continue
        m = _DEPTH.search(line)
        if m:
            res.depth = int(m.group(1))
            continue
        m = _INV.search(line) or _ACTPROP.search(line)
        if m:
            res.violated.append(m.group(1))
            in_trace = True
            if cur_trace:
                res.traces.append("\n".join(cur_trace))
            cur_trace = [line]
            continue
        m = _COV.match(line)
        if m:
            res.coverage[m.group(1)] = (int(m.group(3)), int(m.group(4)))
            continue
        if line.startswith("Error:"):
            if "The behavior up to this point is" in line:
                continue
            res.errors.append(line)
            continue
        if in_trace:
            cur_trace.append(line)
            if len(cur_trace) > 400:
                in_trace = False
    if cur_trace:
        res.traces.append("\n".join(cur_trace))
    if simulate is not None and res.generated == 0:
        m = _SIMCOUNT.search(out)
        if m:
            res.generated = int(m.group(1))
            res.distinct = int(m.group(1))
    finished = ("Model checking completed" in out) or ("Finished in" in out) or simulate is not None
    if res.errors or not finished or (p.returncode not in (0, 12, 13) and not res.violated):
        tail = "\n".join(out.splitlines()[-40:])
        raise TLCFailure(f"TLC failed on {module} (exit {p.returncode}): {res.errors[:3]}\n{tail}")
    if res.violated and not allow_violation:
        raise TLCFailure(f"TLC reported violated invariants on {module}: {sorted(set(res.violated))}\n"
                         + (res.traces[0] if res.traces else ""))
    return res


def sany(workdir, module):
    """Parse-check a module (used by the setup command)."""
    cmd = ["java", "-cp", f"{JAR}:{DEPS}", "tla2sany.SANY", f"{module}.tla"]
    p = subprocess.run(cmd, cwd=workdir, stdout=subprocess.PIPE, stderr=subprocess.STDOUT, text=True)
    return p.returncode == 0 and "Semantic errors" not in p.stdout and "Parse Error" not in p.stdout, p.stdout
